package rules

import (
	"go/ast"
	"go/token"
	"go/types"

	"gnetlint/core"
	"gnetlint/flow"
)

func init() {
	describe(&PropInfo{ID: "C10",
		Explanation: "Decides routing clauses of the elastic buffers: (1) every consumer of elastic.Buffer (Read, Peek, Discard, WriteTo) consults the ring before the list on every path (ring content is older); " +
			"(2) every producer writes into the ring only where the list was seen empty and the ring below the static limit; (3) Buffered/IsEmpty combine both halves; (4) a consumer returns before consulting the " +
			"list only when the ring satisfied the request or the ring was known non-empty (the ring's benign ErrIsEmpty must not end the operation); (5) elastic.RingBuffer hands a pooled ring back only together " +
			"with clearing its pointer, and the consuming operations defer the hand-back of a drained ring. Peek's bound (n <= Buffered) and split arithmetic are not decided (see DESIGN D7).",
		Assumptions: []string{"ring.Buffer and linkedlist.Buffer satisfy C09/C11"}})

	register(&core.Rule{ID: "C10.1", Prop: "C10", MinSites: 4,
		Desc: "ring before list: in Read, Peek, Discard and WriteTo of elastic.Buffer every list call is preceded by the ring call on all paths",
		Run:  runC10_1})
	register(&core.Rule{ID: "C10.2", Prop: "C10", MinSites: 4,
		Desc: "write routing: Write, Writev and ReadFrom put data into the ring only on paths where the list was seen empty and ringBuffer.Buffered() < maxStaticBytes",
		Run:  runC10_2})
	register(&core.Rule{ID: "C10.3", Prop: "C10", MinSites: 2,
		Desc: "Buffered() adds ring and list bytes; IsEmpty() requires both halves empty",
		Run:  runC10_3})
	register(&core.Rule{ID: "C10.4", Prop: "C10", MinSites: 3,
		Desc: "benign-empty discipline: Read/Discard/WriteTo return before consulting the list only when the ring satisfied the request, or on an error of a ring known to be non-empty",
		Run:  runC10_4})
	register(&core.Rule{ID: "C10.7", Prop: "C10", MinSites: 2,
		Desc: "Peek bounds: elastic.Buffer.Peek validates n against Buffered() of both halves, and linkedlist.PeekWithBytes validates its bound against the list bytes plus the prefix segments it is given (not the list alone)",
		Run:  runC10_7})
	register(&core.Rule{ID: "C10.5", Prop: "C10", MinSites: 6,
		Desc: "elastic.RingBuffer: rbPool.Put(b.rb) is followed by b.rb = nil on the same path; Discard/Read/ReadByte/WriteTo defer done() before touching the ring",
		Run:  runC10_5})
}

type elAnch struct {
	pk                 string
	ringF, listF, maxF *types.Var
	rbField            *types.Var
	funcs              map[string]*fn
	rfuncs             map[string]*fn
}

func elAnchors(c *core.Ctx) *elAnch {
	a := &elAnch{pk: "pkg/buffer/elastic", funcs: map[string]*fn{}, rfuncs: map[string]*fn{}}
	a.ringF, a.listF, a.maxF = c.P.Field(a.pk, "Buffer", "ringBuffer"), c.P.Field(a.pk, "Buffer", "listBuffer"), c.P.Field(a.pk, "Buffer", "maxStaticBytes")
	a.rbField = c.P.Field(a.pk, "RingBuffer", "rb")
	if !c.Need("elastic.Buffer.ringBuffer", a.ringF) || !c.Need("elastic.Buffer.listBuffer", a.listF) || !c.Need("elastic.Buffer.maxStaticBytes", a.maxF) || !c.Need("elastic.RingBuffer.rb", a.rbField) {
		return nil
	}
	pk := c.P.Pkg(a.pk)
	for _, d := range c.P.FuncsOf(pk) {
		obj, _ := pk.TypesInfo.Defs[d.Name].(*types.Func)
		if obj == nil || d.Recv == nil {
			continue
		}
		f := &fn{P: c.P, Obj: obj, Decl: d, Info: pk.TypesInfo, Pkg: pk, Name: core.FuncName(obj)}
		if rv := f.recvVar(); rv != nil {
			if isNamedPtr(rv.Type(), "Buffer") {
				a.funcs[nameOf(obj)] = f
			} else if isNamedPtr(rv.Type(), "RingBuffer") {
				a.rfuncs[nameOf(obj)] = f
			}
		}
	}
	return a
}

// half: the call is a method call on mb.ringBuffer ("ring") or mb.listBuffer ("list"); returns half and method name.
func (a *elAnch) half(f *fn, call *ast.CallExpr) (string, string) {
	r := flow.Recv(call)
	if r == nil {
		return "", ""
	}
	sel, _ := ast.Unparen(call.Fun).(*ast.SelectorExpr)
	switch flow.FieldOf(f.Info, r) {
	case a.ringF:
		return "ring", sel.Sel.Name
	case a.listF:
		return "list", sel.Sel.Name
	}
	return "", ""
}

func runC10_1(c *core.Ctx) {
	a := elAnchors(c)
	if a == nil {
		return
	}
	consume := map[string]bool{"Read": true, "Peek": true, "PeekWithBytes": true, "Discard": true, "WriteTo": true}
	for _, name := range []string{"Read", "Peek", "Discard", "WriteTo"} {
		f := a.funcs[name]
		if f == nil {
			c.Undecided("anchor", "elastic.Buffer."+name, token.NoPos, "method not found")
			continue
		}
		const fRing = 1
		p := &flow.Problem{Must: true}
		p.Node = func(b *flow.Block, i int, n ast.Node, in uint64) uint64 {
			for _, call := range flow.Calls(n) {
				if h, m := a.half(f, call); h == "ring" && consume[m] {
					in |= fRing
				}
			}
			return in
		}
		p.Edge = func(e *flow.Edge, in uint64) uint64 {
			// a ring seen empty holds nothing older
			if e.Cond != nil && e.Tag == nil && e.Sense {
				if call, ok := ast.Unparen(e.Cond).(*ast.CallExpr); ok {
					if h, m := a.half(f, call); h == "ring" && m == "IsEmpty" {
						in |= fRing
					}
				}
			}
			return in
		}
		sol := f.Graph().Solve(p)
		k := 0
		sol.Walk(func(b *flow.Block, i int, n ast.Node, before uint64) {
			cur := before
			for _, call := range flow.Calls(n) {
				h, m := a.half(f, call)
				if h == "ring" && consume[m] {
					cur |= fRing
				}
				if h == "list" && consume[m] {
					k++
					c.Check(cur&fRing != 0, f.Name, "list."+m+" after the ring", call.Pos(), "older bytes (ring) are served first",
						"the list half is consumed on a path that has not consumed the ring first: bytes come out of order", sol.Witness(b, fRing)...)
				}
			}
		})
		if k == 0 {
			c.Violate(f.Name, "list half consulted", f.Decl.Pos(), name+" never consults the list half: data beyond the ring is unreachable")
		}
	}
}

func runC10_2(c *core.Ctx) {
	a := elAnchors(c)
	if a == nil {
		return
	}
	produce := map[string]bool{"Write": true, "ReadFrom": true, "WriteString": true, "WriteByte": true}
	for _, name := range []string{"Write", "Writev", "ReadFrom"} {
		f := a.funcs[name]
		if f == nil {
			c.Undecided("anchor", "elastic.Buffer."+name, token.NoPos, "method not found")
			continue
		}
		const (
			fListEmpty = 1 << iota
			fBelow
		)
		p := &flow.Problem{Must: true}
		p.Node = func(b *flow.Block, i int, n ast.Node, in uint64) uint64 {
			for _, call := range flow.Calls(n) {
				if h, m := a.half(f, call); h == "list" && (m == "PushBack" || m == "ReadFrom" || m == "Append" || m == "PushFront") {
					in &^= fListEmpty
				}
			}
			return in
		}
		p.Edge = func(e *flow.Edge, in uint64) uint64 {
			if e.Cond == nil || e.Tag != nil {
				return in
			}
			if call, ok := ast.Unparen(e.Cond).(*ast.CallExpr); ok {
				if h, m := a.half(f, call); h == "list" && m == "IsEmpty" && e.Sense {
					in |= fListEmpty
				}
			}
			if x, y, op, ok := flow.Cmp(e.Cond); ok {
				if call, ok := ast.Unparen(x).(*ast.CallExpr); ok {
					if h, m := a.half(f, call); h == "ring" && m == "Buffered" && flow.FieldOf(f.Info, y) == a.maxF {
						if (op == token.GEQ && !e.Sense) || (op == token.LSS && e.Sense) {
							in |= fBelow
						}
					}
				}
			}
			return in
		}
		sol := f.Graph().Solve(p)
		k := 0
		sol.Walk(func(b *flow.Block, i int, n ast.Node, before uint64) {
			for _, call := range flow.Calls(n) {
				if h, m := a.half(f, call); h == "ring" && produce[m] {
					k++
					c.Check(before&fListEmpty != 0 && before&fBelow != 0, f.Name, "ring."+m+" #"+itoa(k), call.Pos(), "ring written only while the list is empty and the ring is below its static limit",
						"data is written into the ring although the list may already hold (newer) data or the ring reached its static limit: later bytes end up in front of earlier ones", sol.Witness(b, fListEmpty|fBelow)...)
				}
			}
		})
	}
}

func runC10_3(c *core.Ctx) {
	a := elAnchors(c)
	if a == nil {
		return
	}
	check := func(name, method string, op token.Token, good, bad string) {
		f := a.funcs[name]
		if f == nil {
			c.Undecided("anchor", "elastic.Buffer."+name, token.NoPos, "method not found")
			return
		}
		okk := false
		if len(f.Decl.Body.List) == 1 {
			if r, ok := f.Decl.Body.List[0].(*ast.ReturnStmt); ok && len(r.Results) == 1 {
				if be, ok := ast.Unparen(r.Results[0]).(*ast.BinaryExpr); ok && be.Op == op {
					cx, ok1 := ast.Unparen(be.X).(*ast.CallExpr)
					cy, ok2 := ast.Unparen(be.Y).(*ast.CallExpr)
					if ok1 && ok2 {
						hx, mx := a.half(f, cx)
						hy, my := a.half(f, cy)
						okk = mx == method && my == method && ((hx == "ring" && hy == "list") || (hx == "list" && hy == "ring"))
					}
				}
			}
		}
		c.Check(okk, f.Name, name+" combines both halves", f.Decl.Pos(), good, bad)
	}
	check("Buffered", "Buffered", token.ADD, "ring bytes + list bytes", "Buffered() is no longer the sum of the ring's and the list's Buffered(): OutboundBuffered and Peek's bound miscount")
	check("IsEmpty", "IsEmpty", token.LAND, "both halves empty", "IsEmpty() is no longer ringBuffer.IsEmpty() && listBuffer.IsEmpty(): pending data in one half is overlooked (writes overtake it, write interest is dropped)")
}

func runC10_4(c *core.Ctx) {
	a := elAnchors(c)
	if a == nil {
		return
	}
	consume := map[string]bool{"Read": true, "Discard": true, "WriteTo": true}
	for _, name := range []string{"Read", "Discard", "WriteTo"} {
		f := a.funcs[name]
		if f == nil {
			continue
		}
		const (
			fList = 1 << iota
			fSatisfied
			fRingNonEmptyAtCall
			fRingNonEmpty
		)
		p := &flow.Problem{Must: true}
		p.Node = func(b *flow.Block, i int, n ast.Node, in uint64) uint64 {
			for _, call := range flow.Calls(n) {
				h, m := a.half(f, call)
				if h == "list" && consume[m] {
					in |= fList
				}
				if h == "ring" && consume[m] {
					if in&fRingNonEmpty != 0 {
						in |= fRingNonEmptyAtCall
					}
				}
			}
			return in
		}
		p.Edge = func(e *flow.Edge, in uint64) uint64 {
			if e.Cond == nil || e.Tag != nil {
				return in
			}
			if call, ok := ast.Unparen(e.Cond).(*ast.CallExpr); ok {
				if h, m := a.half(f, call); h == "ring" && m == "IsEmpty" && !e.Sense {
					in |= fRingNonEmpty
				}
			}
			// request satisfied by the ring: n == len(p) true, n <= discarded true
			if x, y, op, ok := flow.Cmp(e.Cond); ok && e.Sense {
				_, _ = x, y
				if op == token.EQL || op == token.LEQ || op == token.GEQ {
					if !flow.IsNil(f.Info, y) && !flow.IsNil(f.Info, x) {
						in |= fSatisfied
					}
				}
			}
			return in
		}
		sol := f.Graph().Solve(p)
		k := 0
		sol.AtExit(func(b *flow.Block, facts uint64) {
			k++
			okk := facts&fList != 0 || facts&fSatisfied != 0 || facts&fRingNonEmptyAtCall != 0
			c.Check(okk, f.Name, "return #"+itoa(k), b.Return.Pos(), "list consulted, request satisfied by the ring, or error of a non-empty ring",
				name+" can return right after the ring call without consulting the list although the ring may simply have been empty (ErrIsEmpty is benign): data held in the list is not delivered and the caller sees an error")
		})
	}
}

func runC10_5(c *core.Ctx) {
	a := elAnchors(c)
	if a == nil {
		return
	}
	done := a.rfuncs["done"]
	if done == nil {
		c.Undecided("anchor", "elastic.RingBuffer.done", token.NoPos, "method not found")
		return
	}
	for name, f := range a.rfuncs {
		// rbPool.Put(b.rb) followed by b.rb = nil
		hasPut := false
		for _, call := range callsIn(f.Decl.Body, false) {
			if cf := flow.CalleeFunc(f.Info, call); cf != nil && nameOf(cf) == "Put" && cf.Pkg() != nil && cf.Pkg().Name() == "ringbuffer" {
				hasPut = true
			}
		}
		if hasPut {
			const (
				s0 = iota
				sPut
			)
			au := &flow.Auto{Start: s0}
			au.Node = func(b *flow.Block, i int, n ast.Node, s int) int {
				flow.Events(n, func(x ast.Node) {
					switch y := x.(type) {
					case *ast.CallExpr:
						if cf := flow.CalleeFunc(f.Info, y); cf != nil && nameOf(cf) == "Put" && cf.Pkg() != nil && cf.Pkg().Name() == "ringbuffer" {
							s = sPut
						}
					case *ast.AssignStmt:
						for k, l := range y.Lhs {
							if flow.FieldOf(f.Info, l) == a.rbField && len(y.Rhs) == len(y.Lhs) && flow.IsNil(f.Info, y.Rhs[k]) {
								s = s0
							}
						}
					}
				})
				return s
			}
			sol := f.Graph().Run(au)
			sol.AtExit(func(b *flow.Block, _ uint64) {
				c.Check(sol.Out(b)&(1<<sPut) == 0, f.Name, "rb cleared after Put", b.Return.Pos(), "the pooled ring is forgotten when handed back",
					"the ring is handed back to the pool but b.rb still points to it: the connection keeps using a ring another connection may already have obtained")
			})
		}
		// consuming ops defer done()
		switch name {
		case "Discard", "Read", "ReadByte", "WriteTo":
			g := f.Graph()
			var dd *ast.DeferStmt
			for _, d := range g.Defers {
				if flow.IsCall(f.Info, d.Call, done.Obj) {
					dd = d
				}
			}
			if dd == nil {
				// no defer: done() must then be called explicitly after the consuming call on every path to a return
				const (
					sIdle = iota
					sConsumed
				)
				au := &flow.Auto{Start: sIdle}
				au.Node = func(b *flow.Block, i int, n ast.Node, st int) int {
					for _, call := range flow.Calls(n) {
						if r := flow.Recv(call); r != nil && flow.FieldOf(f.Info, r) == a.rbField {
							if sel, ok := call.Fun.(*ast.SelectorExpr); ok && sel.Sel.Name == name {
								st = sConsumed
							}
						}
						if cf := flow.CalleeFunc(f.Info, call); cf != nil && nameOf(cf) == "instance" && name == "WriteTo" {
							st = sConsumed
						}
						if flow.IsCall(f.Info, call, done.Obj) {
							st = sIdle
						}
					}
					return st
				}
				sol := g.Run(au)
				var bad token.Pos
				consumes := false
				sol.Walk(func(b *flow.Block, i int, n ast.Node, before uint64) {
					if before&(1<<sConsumed) != 0 {
						consumes = true
					}
				})
				sol.AtExit(func(b *flow.Block, _ uint64) {
					if sol.Out(b)&(1<<sConsumed) != 0 {
						consumes = true
						if bad == token.NoPos {
							bad = b.Return.Pos()
						}
					}
				})
				at := f.Decl.Pos()
				if bad != token.NoPos {
					at = bad
				}
				_ = consumes
				c.Check(bad == token.NoPos, f.Name, "defer done()", at, "done() runs after the consuming call on every path (explicitly, no defer)",
					"a consuming operation neither defers done() nor calls it after consuming on every path to a return: a drained ring is never returned to the pool (and IsEmpty bookkeeping of the wrapper drifts)")
				continue
			}
			p := &flow.Problem{Must: true}
			p.Node = func(b *flow.Block, i int, n ast.Node, in uint64) uint64 {
				if n == ast.Node(dd) {
					in |= 1
				}
				return in
			}
			sol := g.Solve(p)
			sol.Walk(func(b *flow.Block, i int, n ast.Node, before uint64) {
				for _, call := range flow.Calls(n) {
					if r := flow.Recv(call); r != nil && flow.FieldOf(f.Info, r) == a.rbField {
						if sel, ok := call.Fun.(*ast.SelectorExpr); ok && (sel.Sel.Name == name) {
							c.Check(before&1 != 0, f.Name, "defer done() before rb."+name, call.Pos(), "hand-back of a drained ring is registered before consuming", "the ring is consumed before done() is deferred")
						}
					}
					if cf := flow.CalleeFunc(f.Info, call); cf != nil && nameOf(cf) == "instance" && name == "WriteTo" {
						c.Check(before&1 != 0, f.Name, "defer done() before rb."+name, call.Pos(), "hand-back of a drained ring is registered before consuming", "the ring is consumed before done() is deferred")
					}
				}
			})
		}
	}
}

func runC10_7(c *core.Ctx) {
	a := elAnchors(c)
	if a == nil {
		return
	}
	// (a) elastic.Buffer.Peek: n > mb.Buffered() ↦ ErrShortBuffer
	if f := a.funcs["Peek"]; f != nil {
		okk := false
		ast.Inspect(f.Decl.Body, func(n ast.Node) bool {
			if x, y, op, ok := func() (ast.Expr, ast.Expr, token.Token, bool) {
				if e, ok := n.(ast.Expr); ok {
					return flow.Cmp(e)
				}
				return nil, nil, 0, false
			}(); ok && op == token.GTR && flow.ObjOf(f.Info, x) == types.Object(f.param(0)) {
				if call, ok := ast.Unparen(y).(*ast.CallExpr); ok {
					if cf := flow.CalleeFunc(f.Info, call); cf != nil && nameOf(cf) == "Buffered" && flow.ObjOf(f.Info, flow.Recv(call)) == types.Object(f.recvVar()) {
						okk = true
					}
				}
			}
			return true
		})
		c.Check(okk, f.Name, "n bounded by Buffered() of both halves", f.Decl.Pos(), "n > mb.Buffered() is refused", "Peek no longer validates n against the bytes of both halves")
	}
	// (b) linkedlist.PeekWithBytes: the bound includes the prefix segments
	f := getFn(c, "pkg/buffer/linkedlist", "Buffer.PeekWithBytes")
	if f == nil {
		return
	}
	maxB, bs := f.param(0), f.param(1)
	// variables that depend on bs: assigned from expressions mentioning bs or a range variable over bs
	dep := map[types.Object]bool{bs: true}
	for changed := true; changed; {
		changed = false
		ast.Inspect(f.Decl.Body, func(n ast.Node) bool {
			switch y := n.(type) {
			case *ast.RangeStmt:
				if o := flow.ObjOf(f.Info, y.X); o != nil && dep[o] {
					for _, v := range []ast.Expr{y.Key, y.Value} {
						if v != nil {
							if vo := flow.ObjOf(f.Info, v); vo != nil && !dep[vo] {
								dep[vo] = true
								changed = true
							}
						}
					}
				}
			case *ast.AssignStmt:
				uses := false
				for _, r := range y.Rhs {
					ast.Inspect(r, func(z ast.Node) bool {
						if id, ok := z.(*ast.Ident); ok && f.Info.Uses[id] != nil && dep[f.Info.Uses[id]] {
							uses = true
						}
						return true
					})
				}
				if uses {
					for _, l := range y.Lhs {
						if lo := flow.ObjOf(f.Info, l); lo != nil && !dep[lo] {
							dep[lo] = true
							changed = true
						}
					}
				}
			}
			return true
		})
	}
	found := false
	ast.Inspect(f.Decl.Body, func(n ast.Node) bool {
		is, ok := n.(*ast.IfStmt)
		if !ok {
			return true
		}
		// body returns io.ErrShortBuffer?
		returnsShort := false
		for _, st := range is.Body.List {
			if r, ok := st.(*ast.ReturnStmt); ok && len(r.Results) == 2 {
				if o := flow.ObjOf(f.Info, r.Results[1]); o != nil && nameOf(o) == "ErrShortBuffer" {
					returnsShort = true
				}
			}
		}
		if !returnsShort {
			return true
		}
		x, y, op, ok := flow.Cmp(is.Cond)
		if !ok || op != token.GTR || flow.ObjOf(f.Info, x) != types.Object(maxB) {
			return true
		}
		found = true
		usesPrefix := false
		ast.Inspect(y, func(z ast.Node) bool {
			if id, ok := z.(*ast.Ident); ok && f.Info.Uses[id] != nil && dep[f.Info.Uses[id]] && f.Info.Uses[id] != types.Object(maxB) {
				usesPrefix = true
			}
			return true
		})
		c.Check(usesPrefix, f.Name, "short-buffer bound includes the prefix segments", is.Pos(), "maxBytes is compared with list bytes + len of the given segments",
			"PeekWithBytes refuses maxBytes > "+exprStr(y)+", which ignores the prefix segments it is asked to prepend: elastic.Buffer.Peek(n) fails with ErrShortBuffer whenever n exceeds the list part although n <= Buffered()")
		return true
	})
	if !found {
		c.Violate(f.Name, "short-buffer bound includes the prefix segments", f.Decl.Pos(), "PeekWithBytes no longer refuses a bound larger than what it can deliver")
	}
}
