package rules

import (
	"fmt"
	"go/ast"
	"go/token"
	"go/types"
	"sort"

	"gnetlint/core"
	"gnetlint/flow"
)

// fd typestate (DESIGN §3.4) for descriptors acquired into a local variable inside package gnet:
//   NONE -> HELD (successful socket.Accept / socket.Dup) -> DONE (unix.Close(v), handed to a conn
//   constructor, returned to the caller). A return in HELD is a leak; a second unix.Close in DONE a
//   double close.
// The error variables assigned together with the acquisition are "paired": on their "!= nil" edge
// nothing was acquired. The pairing ends when the variable is assigned again.

type fdSource struct {
	stmt   ast.Node   // the block-level node after which the fd is held
	v      *types.Var // the local that holds the descriptor
	paired []types.Object
	what   string
	pos    token.Pos
}

func isFdSourceCall(info *types.Info, call *ast.CallExpr) string {
	f := flow.CalleeFunc(info, call)
	if f == nil || f.Pkg() == nil {
		return ""
	}
	if f.Pkg().Path() == core.ModPath+"/pkg/socket" && (nameOf(f) == "Accept" || nameOf(f) == "Dup") {
		return "socket." + f.Name()
	}
	return ""
}

func isErrorType(t types.Type) bool {
	return t != nil && types.Identical(t, types.Universe.Lookup("error").Type())
}

// findFdSources finds acquisitions in body (the unit), including those made inside a function literal
// that is an argument of a statement of the unit (rc.Control(func(fd uintptr){ dupFD, err = socket.Dup(..) })).
func findFdSources(info *types.Info, g *flow.Graph) []fdSource {
	var out []fdSource
	for _, b := range g.Blocks {
		for _, n := range b.Nodes {
			var paired []types.Object
			var src *fdSource
			collect := func(as *ast.AssignStmt, nested bool) {
				if len(as.Rhs) != 1 {
					return
				}
				call, ok := ast.Unparen(as.Rhs[0]).(*ast.CallExpr)
				if !ok {
					return
				}
				what := isFdSourceCall(info, call)
				if what == "" || len(as.Lhs) < 2 {
					return
				}
				v, _ := flow.ObjOf(info, as.Lhs[0]).(*types.Var)
				if v == nil || v.IsField() || !declaredDirectlyIn(g.Body, v.Pos()) {
					return
				}
				src = &fdSource{stmt: n, v: v, what: what, pos: call.Pos()}
				for _, l := range as.Lhs[1:] {
					if o := flow.ObjOf(info, l); o != nil && isErrorType(o.Type()) {
						paired = append(paired, o)
					}
				}
			}
			ast.Inspect(n, func(x ast.Node) bool {
				if as, ok := x.(*ast.AssignStmt); ok {
					collect(as, false)
				}
				return true
			})
			if src == nil {
				continue
			}
			// error results of the enclosing statement are paired too (err1 := rc.Control(...))
			if as, ok := n.(*ast.AssignStmt); ok {
				for _, l := range as.Lhs {
					if o := flow.ObjOf(info, l); o != nil && isErrorType(o.Type()) {
						paired = append(paired, o)
					}
				}
			}
			src.paired = paired
			out = append(out, *src)
		}
	}
	return out
}

// declaredDirectlyIn: pos lies in body but not inside a function literal nested in body.
func declaredDirectlyIn(body *ast.BlockStmt, pos token.Pos) bool {
	if pos < body.Pos() || pos > body.End() {
		return false
	}
	nested := false
	ast.Inspect(body, func(n ast.Node) bool {
		if fl, ok := n.(*ast.FuncLit); ok {
			if fl.Pos() <= pos && pos <= fl.End() {
				nested = true
			}
			return false
		}
		return true
	})
	return !nested
}

type fdIssue struct {
	construct string
	pos       token.Pos
	ok        bool
	msg       string
}

// analyseFd runs the typestate for one source in one unit.
func analyseFd(c *core.Ctx, v *vocab, f *fn, g *flow.Graph, src fdSource) []fdIssue {
	info := f.Info
	const (
		sNone = 0
		sHeld = 1
		sDone = 2
		sXfer = 3 // handed to a conn constructor: the conn owns it, but the creator may still close it before registration
	)
	// state = fd state (2 bits) | valid mask of paired vars << 2
	enc := func(st, valid int) int { return st | valid<<2 }
	dec := func(s int) (int, int) { return s & 3, s >> 2 }
	if len(src.paired) > 3 {
		src.paired = src.paired[:3]
	}
	pairIdx := func(o types.Object) int {
		for i, p := range src.paired {
			if p == o {
				return i
			}
		}
		return -1
	}
	isV := func(e ast.Expr) bool { return flow.ObjOf(info, e) == src.v }
	isCtor := func(call *ast.CallExpr) bool {
		cf := flow.CalleeFunc(info, call)
		return cf != nil && v.byObj[cf] != nil && (nameOf(cf) == "newStreamConn" || nameOf(cf) == "newUDPConn")
	}

	// deferred closers: defer func(){ if <guard> { unix.Close(v) } }()
	type closer struct {
		d     *ast.DeferStmt
		guard string
	}
	var closers []closer
	for _, d := range g.Defers {
		fl, ok := d.Call.Fun.(*ast.FuncLit)
		if !ok {
			continue
		}
		lg := f.litGraph(fl)
		for _, b := range lg.Blocks {
			for _, n := range b.Nodes {
				for _, call := range flow.Calls(n) {
					if flow.IsPkgFunc(info, call, unixPkg, "Close") && len(call.Args) == 1 && isV(call.Args[0]) {
						// the guard: the single conditional edge leading to this block
						guard := "unconditional"
						if guardedBy(b, func(e *flow.Edge) (found, neutral bool) {
							if e.Cond == nil || e.Tag != nil {
								return false, e.Cond == nil
							}
							x, y, op, ok := flow.Cmp(e.Cond)
							if !ok {
								return false, false
							}
							if flow.IsNil(info, y) {
								if o, isVar := flow.ObjOf(info, x).(*types.Var); isVar && v.isConnPtr(o.Type()) &&
									((op == token.EQL && e.Sense) || (op == token.NEQ && !e.Sense)) && connOnlyFromCtorOf(info, g.Body, o, src.v, isCtor) {
									return true, false
								}
							}
							return false, isV(x) || isV(y) // a test of the descriptor variable itself (fd >= 0) narrows nothing else
						}) {
							guard = "conn-not-built"
						}
						closers = append(closers, closer{d, guard})
					}
				}
			}
		}
	}
	const closerBit = 1 << 5

	var issues []fdIssue
	record := false
	add := func(construct string, pos token.Pos, ok bool, msg string) {
		if !record {
			return
		}
		issues = append(issues, fdIssue{construct, pos, ok, msg})
	}
	step := func(n ast.Node, s int) int {
		cb := s & closerBit
		st, valid := dec(s &^ closerBit)
		if d, ok := n.(*ast.DeferStmt); ok {
			for _, cl := range closers {
				if cl.d == d && cl.guard != "unconditional" {
					cb = closerBit
				}
			}
		}
		flow.Events(n, func(x ast.Node) {
			switch e := x.(type) {
			case *ast.CallExpr:
				if flow.IsPkgFunc(info, e, unixPkg, "Close") && len(e.Args) == 1 && isV(e.Args[0]) {
					add("unix.Close("+src.v.Name()+")", e.Pos(), st != sDone, "descriptor "+src.v.Name()+" is closed although it was already closed or handed over on this path (double close of a possibly reused number)")
					st = sDone
				}
				if isCtor(e) {
					for _, a := range e.Args {
						if isV(a) && st == sHeld {
							st = sXfer
						}
					}
				}
			case *ast.AssignStmt:
				for _, l := range e.Lhs {
					if o := flow.ObjOf(info, l); o != nil {
						if i := pairIdx(o); i >= 0 && n != src.stmt {
							valid &^= 1 << uint(i)
						}
					}
				}
			case *ast.ReturnStmt:
				for _, r := range e.Results {
					if isV(r) && st == sHeld {
						st = sDone
					}
				}
			}
		})
		if n == src.stmt {
			st, valid = sHeld, (1<<uint(len(src.paired)))-1
		}
		return enc(st, valid) | cb
	}
	au := &flow.Auto{Start: enc(sNone, 0)}
	au.Node = func(b *flow.Block, i int, n ast.Node, s int) int { return step(n, s) }
	au.Edge = func(e *flow.Edge, s int) int {
		cb := s & closerBit
		st, valid := dec(s &^ closerBit)
		if st != sHeld || e.Cond == nil {
			return s
		}
		var errObj types.Object
		failed := false
		if e.Tag != nil {
			// switch err { case nil: }
			if flow.IsNil(info, e.Cond) {
				errObj = flow.ObjOf(info, e.Tag)
				failed = !e.Sense
			} else if o := flow.ObjOf(info, e.Tag); o != nil && pairIdx(o) >= 0 && e.Sense {
				// case unix.EAGAIN etc.: a specific non-nil error
				errObj, failed = o, true
			}
		} else if x, y, op, ok := flow.Cmp(e.Cond); ok && flow.IsNil(info, y) {
			errObj = flow.ObjOf(info, x)
			failed = (op == token.NEQ && e.Sense) || (op == token.EQL && !e.Sense)
		} else if ok && op == token.EQL && e.Sense {
			// err == unix.EAGAIN …: a specific non-nil error
			if o := flow.ObjOf(info, x); o != nil && pairIdx(o) >= 0 {
				if k := flow.ObjOf(info, y); k != nil && k.Pkg() != nil && k.Pkg().Path() == unixPkg {
					errObj, failed = o, true
				}
			}
		}
		if errObj != nil && failed {
			if i := pairIdx(errObj); i >= 0 && valid&(1<<uint(i)) != 0 {
				return enc(sNone, 0) | cb
			}
		}
		return s
	}
	sol := g.Run(au)
	record = true
	for _, b := range g.Blocks {
		if !sol.Seen[b.ID] || sol.In[b.ID] == 0 {
			continue
		}
		// replay each possible state separately so that sites are judged per state
		for _, s0 := range flow.States(sol.In[b.ID]) {
			s := s0
			for _, n := range b.Nodes {
				s = step(n, s)
			}
			if b.Return != nil {
				st, _ := dec(s &^ closerBit)
				leak := st == sHeld && s&closerBit == 0
				add("return", b.Return.Pos(), !leak, fmt.Sprintf("this return is reachable with the descriptor from %s (%s) neither closed, handed to a connection nor returned: it leaks", src.what, src.v.Name()))
			}
		}
	}
	// dedup by construct+pos keeping the worst verdict, then number same-named constructs in source order
	type key struct {
		c string
		p token.Pos
	}
	best := map[key]int{}
	var out []fdIssue
	for _, is := range issues {
		k := key{is.construct, is.pos}
		if i, ok := best[k]; ok {
			if !is.ok {
				out[i] = is
			}
			continue
		}
		best[k] = len(out)
		out = append(out, is)
	}
	sort.SliceStable(out, func(i, j int) bool { return out[i].pos < out[j].pos })
	cnt := map[string]int{}
	for i := range out {
		cnt[out[i].construct]++
		if k := cnt[out[i].construct]; k > 1 {
			out[i].construct = fmt.Sprintf("%s #%d", out[i].construct, k)
		}
	}
	return out
}

// connOnlyFromCtorOf: every assignment to conn variable o in body is a constructor call that
// receives fdVar (so "o == nil" means the descriptor has not been handed over yet).
func connOnlyFromCtorOf(info *types.Info, body ast.Node, o *types.Var, fdVar *types.Var, isCtor func(*ast.CallExpr) bool) bool {
	ok := true
	n := 0
	ast.Inspect(body, func(x ast.Node) bool {
		as, isAs := x.(*ast.AssignStmt)
		if !isAs {
			return true
		}
		for i, l := range as.Lhs {
			if flow.ObjOf(info, l) != o {
				continue
			}
			n++
			if len(as.Rhs) != len(as.Lhs) {
				ok = false
				continue
			}
			if flow.IsNil(info, as.Rhs[i]) {
				n-- // o = nil: still "not built"
				continue
			}
			call, isCall := ast.Unparen(as.Rhs[i]).(*ast.CallExpr)
			if !isCall || !isCtor(call) {
				ok = false
				continue
			}
			has := false
			for _, a := range call.Args {
				if flow.ObjOf(info, a) == fdVar {
					has = true
				}
			}
			if !has {
				ok = false
			}
		}
		return true
	})
	return ok && n > 0
}

// guardedBy walks from block b back through blocks entered over a single edge and reports whether one
// of those edges is the wanted guard (found) while every edge passed before it is neutral.
func guardedBy(b *flow.Block, classify func(e *flow.Edge) (found, neutral bool)) bool {
	for depth := 0; depth < 6 && b != nil && len(b.Preds) == 1; depth++ {
		e := b.Preds[0]
		found, neutral := classify(e)
		if found {
			return true
		}
		if !neutral {
			return false
		}
		b = e.From
	}
	return false
}
