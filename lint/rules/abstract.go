package rules

import (
	"go/ast"
	"go/constant"
	"go/token"
	"go/types"

	"gnetlint/flow"
)

// A function that touches its integer parameter only through comparisons with constants (and a
// fixed set of other atomic tests) takes the same path for every value of a class of that
// parameter. Deciding it for one representative valuation per class decides it for all inputs –
// independent of how the conditions are spelled (negated, De Morgan, early returns, one expression).

type ival struct {
	lo, hi       int64
	loInf, hiInf bool
}

// cmp decides `v op k` for every v of the class; ok=false when the class is split by it.
func (c ival) cmp(op token.Token, k int64) (truth, ok bool) {
	allLess := !c.hiInf && c.hi < k    // every v < k
	allLeq := !c.hiInf && c.hi <= k    // every v <= k
	allGreater := !c.loInf && c.lo > k // every v > k
	allGeq := !c.loInf && c.lo >= k    // every v >= k
	single := !c.loInf && !c.hiInf && c.lo == c.hi
	switch op {
	case token.LSS:
		if allLess {
			return true, true
		}
		if allGeq {
			return false, true
		}
	case token.LEQ:
		if allLeq {
			return true, true
		}
		if allGreater {
			return false, true
		}
	case token.GTR:
		if allGreater {
			return true, true
		}
		if allLeq {
			return false, true
		}
	case token.GEQ:
		if allGeq {
			return true, true
		}
		if allLess {
			return false, true
		}
	case token.EQL:
		if single && c.lo == k {
			return true, true
		}
		if allLess || allGreater {
			return false, true
		}
	case token.NEQ:
		if single && c.lo == k {
			return false, true
		}
		if allLess || allGreater {
			return true, true
		}
	}
	return false, false
}

func swapCmp(op token.Token) token.Token {
	switch op {
	case token.LSS:
		return token.GTR
	case token.GTR:
		return token.LSS
	case token.LEQ:
		return token.GEQ
	case token.GEQ:
		return token.LEQ
	}
	return op
}

// absEnv is one valuation: the class of the parameter and the truth of the extra atoms.
type absEnv struct {
	f    *fn
	n    types.Object
	cls  ival
	atom func(e ast.Expr) (truth, ok bool) // other atomic conditions (already stripped of parentheses)
}

func (a *absEnv) eval(e ast.Expr) (truth, ok bool) {
	e = ast.Unparen(e)
	if tv, has := a.f.Info.Types[e]; has && tv.Value != nil && tv.Value.Kind() == constant.Bool {
		return constant.BoolVal(tv.Value), true
	}
	switch x := e.(type) {
	case *ast.UnaryExpr:
		if x.Op == token.NOT {
			t, ok := a.eval(x.X)
			return !t, ok
		}
	case *ast.BinaryExpr:
		switch x.Op {
		case token.LAND:
			l, ok1 := a.eval(x.X)
			if ok1 && !l {
				return false, true
			}
			r, ok2 := a.eval(x.Y)
			return l && r, ok1 && ok2
		case token.LOR:
			l, ok1 := a.eval(x.X)
			if ok1 && l {
				return true, true
			}
			r, ok2 := a.eval(x.Y)
			return l || r, ok1 && ok2
		}
	}
	if a.atom != nil {
		if t, ok := a.atom(e); ok {
			return t, true
		}
	}
	if x, y, op, isCmp := flow.Cmp(e); isCmp {
		if flow.ObjOf(a.f.Info, y) == a.n {
			x, y, op = y, x, swapCmp(op)
		}
		if flow.ObjOf(a.f.Info, x) == a.n {
			if cv := flow.ConstOf(a.f.Info, y); cv != nil {
				if k, exact := constant.Int64Val(constant.ToInt(cv)); exact {
					return a.cls.cmp(op, k)
				}
			}
		}
	}
	return false, false
}

// run follows the function from its entry under the valuation and returns the returned expression.
func (a *absEnv) run() (ret *ast.ReturnStmt, ok bool) {
	b := a.f.Graph().Entry
	for steps := 0; steps < 200 && b != nil; steps++ {
		if b.Return != nil {
			return b.Return, true
		}
		if b.NoRet || len(b.Succs) == 0 {
			return nil, false
		}
		var next *flow.Block
		for _, e := range b.Succs {
			if e.Tag != nil {
				return nil, false
			}
			if e.Cond == nil {
				next = e.To
				break
			}
			t, ok := a.eval(e.Cond)
			if !ok {
				return nil, false
			}
			if t == e.Sense {
				next = e.To
				break
			}
		}
		b = next
	}
	return nil, false
}
