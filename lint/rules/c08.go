package rules

import (
	"go/ast"
	"go/constant"
	"go/token"
	"go/types"

	"gnetlint/core"
	"gnetlint/flow"
)

func init() {
	describe(&PropInfo{ID: "C08", QuickConfigs: []core.Config{cfgPollOpt},
		Explanation: "Decides per-datagram isolation and identity in readUDP and the send path: (1) on the listener edge the conn is built by newUDPConn in this very invocation from the Recvfrom sockaddr and the event's fd " +
			"(shared with C17.2); (2) the window handed to OnTraffic is buffer[:n] of this Recvfrom (C01.2 engine); (3) readUDP performs exactly one Recvfrom and, unless it failed, exactly one OnTraffic, and never writes " +
			"into an inbound ring (nothing is carried over); the per-datagram conn is released after the callback; (4) sendTo performs exactly one Send/Sendto per path with the unsliced buffer, c.fd and the explicit " +
			"address if given, else c.remote; Write on a datagram conn routes to sendTo(p, nil) and SendTo passes the converted address; (5) a UDP listen address forces level-triggered mode after the ET normalisation. " +
			"Payload equality, truncation and kernel delivery are not decided.",
		Assumptions: []string{"one recvfrom(2) returns one datagram; one sendto(2) sends one datagram"}})

	register(&core.Rule{ID: "C08.3", Prop: "C08", MinSites: 1,
		Desc: "the bytes exposed to OnTraffic in readUDP are exactly buffer[:n] of this invocation's Recvfrom",
		Run: func(c *core.Ctx) {
			runC01_2(c) // same engine; keep only readUDP
			var keep []core.Obligation
			for _, o := range c.Obls {
				if o.Site == "gnet.(*eventloop).readUDP" || o.Status == core.Undecided {
					keep = append(keep, o)
				}
			}
			c.Obls = keep
		}})
	register(&core.Rule{ID: "C08.4", Prop: "C08", MinSites: 3,
		Desc: "readUDP: one Recvfrom and (on success) exactly one OnTraffic per invocation, no write into an inbound ring, per-datagram conn released after the callback",
		Run:  runC08_4})
	register(&core.Rule{ID: "C08.5", Prop: "C08", MinSites: 5,
		Desc: "sendTo: exactly one Send/Sendto per path with (c.fd, buf unsliced) and the explicit address else c.remote; Write routes datagram conns to sendTo(p, nil); SendTo passes the converted address",
		Run:  runC08_5})
	register(&core.Rule{ID: "C08.7", Prop: "C08", MinSites: 1,
		Desc: "createListeners switches edge-triggered I/O off whenever a UDP address is present, after the ET normalisation",
		Run:  runC08_7})
}

func runC08_4(c *core.Ctx) {
	v := vocabOf(c)
	if v == nil {
		return
	}
	f := getFn(c, "", "eventloop.readUDP")
	ringWrite := c.P.Func("pkg/buffer/elastic", "RingBuffer.Write")
	remote := c.P.Field("", "conn", "remote")
	if f == nil || !c.Need("RingBuffer.Write", ringWrite) || !c.Need("conn.remote", remote) {
		return
	}
	g := f.Graph()
	recvCnt := g.CountEvents(flow.CountOpts{Events: func(b *flow.Block, n ast.Node) int {
		k := 0
		for _, call := range flow.Calls(n) {
			if flow.IsPkgFunc(f.Info, call, unixPkg, "Recvfrom") {
				k++
			}
		}
		return k
	}})
	cbCnt := g.CountEvents(flow.CountOpts{Events: func(b *flow.Block, n ast.Node) int {
		k := 0
		for _, call := range flow.Calls(n) {
			if v.isConnCallback(f.Info, call) == "OnTraffic" {
				k++
			}
		}
		return k
	}})
	// error edge of the recvfrom
	const fFailed = 1
	p := &flow.Problem{Must: true}
	p.Edge = func(e *flow.Edge, in uint64) uint64 {
		if e.Cond != nil && e.Tag == nil {
			if x, y, op, ok := flow.Cmp(e.Cond); ok && flow.IsNil(f.Info, y) && isErrorType(f.Info.TypeOf(x)) && (op == token.NEQ) == e.Sense {
				in |= fFailed
			}
		}
		// as an if or as a case of `switch err`: err == EAGAIN (any named error value) says that the call failed, and so does err != nil
		if l, r, eq, ok := flow.Equality(e); ok && isErrorType(f.Info.TypeOf(l)) {
			if eq && !flow.IsNil(f.Info, r) && flow.ObjOf(f.Info, r) != nil {
				in |= fFailed
			}
			if !eq && flow.IsNil(f.Info, r) {
				in |= fFailed
			}
		}
		return in
	}
	sol := g.Solve(p)
	k := 0
	sol.AtExit(func(b *flow.Block, facts uint64) {
		k++
		rc, cc := recvCnt.Out(b), cbCnt.Out(b)
		want := flow.Cnt1
		if facts&fFailed != 0 {
			want = flow.Cnt0
		}
		c.Check(rc == flow.Cnt1 && cc == want, f.Name, "one datagram, one event (return #"+itoa(k)+")", b.Return.Pos(), "exactly one Recvfrom and "+flow.CountSet(want)+" OnTraffic",
			"a path of readUDP performs "+flow.CountSet(rc)+" Recvfrom and "+flow.CountSet(cc)+" OnTraffic calls: datagrams are merged into one event, delivered twice, or dropped")
	})
	// no carry-over
	carry := false
	for _, call := range callsIn(f.Decl.Body, true) {
		if flow.IsCall(f.Info, call, ringWrite) {
			carry = true
		}
	}
	c.Check(!carry, f.Name, "no inbound carry-over", f.Decl.Pos(), "nothing of a datagram is kept for a later callback", "readUDP writes into an inbound ring buffer: unread bytes of one datagram would be prepended to the next one")
	// release after the callback under c.remote != nil
	const (
		s0 = iota
		sCalled
		sReleased
	)
	au := &flow.Auto{Start: s0}
	au.Node = func(b *flow.Block, i int, n ast.Node, s int) int {
		for _, call := range flow.Calls(n) {
			if v.isConnCallback(f.Info, call) == "OnTraffic" {
				s = sCalled
			}
			if flow.IsCall(f.Info, call, v.releaseFn) && s == sCalled {
				s = sReleased
			}
		}
		return s
	}
	au.Edge = func(e *flow.Edge, s int) int {
		// c.remote == nil (registered client conn): nothing to release
		if s == sCalled && e.Cond != nil && e.Tag == nil {
			if x, y, op, ok := flow.Cmp(e.Cond); ok && flow.IsNil(f.Info, y) && flow.FieldOf(f.Info, x) == remote && (op == token.EQL) == e.Sense {
				return sReleased
			}
		}
		return s
	}
	rs := g.Run(au)
	okk := true
	rs.AtExit(func(b *flow.Block, _ uint64) {
		if rs.Out(b)&(1<<sCalled) != 0 {
			okk = false
		}
	})
	c.Check(okk, f.Name, "per-datagram conn released after the callback", f.Decl.Pos(), "context/buffer of the temporary conn are dropped", "the per-datagram conn is not released after OnTraffic on some path: its buffer window keeps pointing into the loop buffer that the next datagram overwrites")
}

func runC08_5(c *core.Ctx) {
	v := vocabOf(c)
	if v == nil {
		return
	}
	f := getFn(c, "", "conn.sendTo")
	remote := c.P.Field("", "conn", "remote")
	isDatagram := c.P.Field("", "conn", "isDatagram")
	if f == nil || !c.Need("conn.remote", remote) || !c.Need("conn.isDatagram", isDatagram) {
		return
	}
	buf, addr := f.param(0), f.param(1)
	isSend := func(call *ast.CallExpr) string {
		if flow.IsPkgFunc(f.Info, call, unixPkg, "Sendto") {
			return "Sendto"
		}
		if flow.IsPkgFunc(f.Info, call, unixPkg, "Send") {
			return "Send"
		}
		return ""
	}
	g := f.Graph()
	cnt := g.CountEvents(flow.CountOpts{Events: func(b *flow.Block, n ast.Node) int {
		k := 0
		for _, call := range flow.Calls(n) {
			if isSend(call) != "" {
				k++
			}
		}
		return k
	}})
	k := 0
	cnt.AtExit(func(b *flow.Block, _ uint64) {
		k++
		cs := cnt.Out(b)
		c.Check(cs == flow.Cnt1, f.Name, "one datagram per send (return #"+itoa(k)+")", b.Return.Pos(), "exactly one Send/Sendto", "a path of sendTo issues "+flow.CountSet(cs)+" send syscalls: the payload is sent twice or not at all")
	})
	const (
		fAddr = 1 << iota
		fNoAddr
		fNoRemote
		fRemote
	)
	p := &flow.Problem{Must: true}
	p.Edge = func(e *flow.Edge, in uint64) uint64 {
		if e.Cond == nil || e.Tag != nil {
			return in
		}
		x, y, op, ok := flow.Cmp(e.Cond)
		if !ok || !flow.IsNil(f.Info, y) {
			return in
		}
		nonNil := (op == token.NEQ) == e.Sense
		if flow.ObjOf(f.Info, x) == types.Object(addr) {
			if nonNil {
				in |= fAddr
			} else {
				in |= fNoAddr
			}
		}
		if flow.FieldOf(f.Info, x) == remote {
			if nonNil {
				in |= fRemote
			} else {
				in |= fNoRemote
			}
		}
		return in
	}
	sol := g.Solve(p)
	n := 0
	sol.Walk(func(b *flow.Block, i int, nd ast.Node, before uint64) {
		for _, call := range flow.Calls(nd) {
			kind := isSend(call)
			if kind == "" {
				continue
			}
			n++
			okk := flow.FieldOf(f.Info, call.Args[0]) == v.fdF && flow.ObjOf(f.Info, call.Args[1]) == types.Object(buf)
			why := "the send does not use c.fd and the caller's buffer unsliced"
			if okk && kind == "Sendto" {
				dst := call.Args[3]
				switch {
				case flow.ObjOf(f.Info, dst) == types.Object(addr):
					okk = before&fAddr != 0
					why = "the explicit address is used although it may be nil"
				case flow.FieldOf(f.Info, dst) == remote:
					okk = before&fNoAddr != 0
					why = "c.remote is used although an explicit address was given: SendTo would reply to the datagram's sender instead of the requested address"
				default:
					okk = false
					why = "the destination is neither the explicit address nor c.remote"
				}
			} else if okk && kind == "Send" {
				okk = before&fNoAddr != 0 && before&fNoRemote != 0
				why = "send(2) on the connected socket is used although an explicit or remembered address exists"
			}
			c.Check(okk, f.Name, kind+" #"+itoa(n)+" destination and payload", call.Pos(), "right socket, whole payload, right peer", why)
		}
	})
	// Write routes datagram conns to sendTo(p, nil); SendTo passes the converted address
	if w := getFn(c, "", "conn.Write"); w != nil {
		okk := false
		const (
			fDg = 1 << iota
			fStream
		)
		streamWrite := c.P.Func("", "conn.write")
		pp := &flow.Problem{Must: true}
		pp.Edge = func(e *flow.Edge, in uint64) uint64 {
			if e.Cond != nil && e.Tag == nil && flow.FieldOf(w.Info, e.Cond) == isDatagram {
				if e.Sense {
					in |= fDg
				} else {
					in |= fStream
				}
			}
			return in
		}
		ws := w.Graph().Solve(pp)
		ws.Walk(func(b *flow.Block, i int, nd ast.Node, before uint64) {
			for _, call := range flow.Calls(nd) {
				if flow.IsCall(w.Info, call, f.Obj) && before&fDg != 0 && len(call.Args) == 2 &&
					flow.ObjOf(w.Info, call.Args[0]) == types.Object(w.param(0)) && flow.IsNil(w.Info, call.Args[1]) {
					okk = true
				}
				if streamWrite != nil && flow.IsCall(w.Info, call, streamWrite) {
					c.Check(before&fStream != 0, w.Name, "stream path only for stream conns", call.Pos(), "write(2)-based path is reached only when !isDatagram",
						"a datagram conn can reach the stream write path (outbound buffer, write(2)): the datagram boundary is lost and a connected client socket gets partial writes")
				}
			}
		})
		c.Check(okk, w.Name, "datagram Write ↦ sendTo(p, nil)", w.Decl.Pos(), "a Write in a UDP callback answers the datagram's sender with exactly p", "Write on a datagram conn no longer calls sendTo(p, nil)")
	}
	if st := getFn(c, "", "conn.SendTo"); st != nil {
		okk := false
		var saObj types.Object
		ast.Inspect(st.Decl.Body, func(nd ast.Node) bool {
			if as, ok := nd.(*ast.AssignStmt); ok && len(as.Lhs) == 1 && len(as.Rhs) == 1 {
				if call, ok := ast.Unparen(as.Rhs[0]).(*ast.CallExpr); ok && len(call.Args) == 1 && flow.ObjOf(st.Info, call.Args[0]) == types.Object(st.param(1)) {
					saObj = flow.ObjOf(st.Info, as.Lhs[0])
				}
			}
			return true
		})
		for _, call := range callsIn(st.Decl.Body, false) {
			if flow.IsCall(st.Info, call, f.Obj) && len(call.Args) == 2 && flow.ObjOf(st.Info, call.Args[0]) == types.Object(st.param(0)) && saObj != nil && flow.ObjOf(st.Info, call.Args[1]) == saObj {
				okk = true
			}
		}
		c.Check(okk, st.Name, "SendTo ↦ sendTo(p, converted addr)", st.Decl.Pos(), "the given address, converted, is the destination", "SendTo no longer passes the conversion of its addr parameter to sendTo")
	}
}

func runC08_7(c *core.Ctx) {
	f := getFn(c, "", "createListeners")
	et := c.P.Field("", "Options", "EdgeTriggeredIO")
	if f == nil || !c.Need("Options.EdgeTriggeredIO", et) {
		return
	}
	// the assignment options.EdgeTriggeredIO = false under hasUDP, positioned after every assignment = true
	var lastTrue, falsePos token.Pos
	guarded := false
	ast.Inspect(f.Decl.Body, func(n ast.Node) bool {
		if is, ok := n.(*ast.IfStmt); ok {
			if o, ok := flow.ObjOf(f.Info, is.Cond).(*types.Var); ok && nameOf(o) == "hasUDP" {
				for _, st := range is.Body.List {
					if as, ok := st.(*ast.AssignStmt); ok {
						for k, l := range as.Lhs {
							if flow.FieldOf(f.Info, l) == et && len(as.Rhs) == len(as.Lhs) {
								if cv := flow.ConstOf(f.Info, as.Rhs[k]); cv != nil && !constant.BoolVal(cv) {
									guarded = true
									falsePos = as.Pos()
								}
							}
						}
					}
				}
			}
		}
		if as, ok := n.(*ast.AssignStmt); ok {
			for k, l := range as.Lhs {
				if flow.FieldOf(f.Info, l) == et && len(as.Rhs) == len(as.Lhs) {
					if cv := flow.ConstOf(f.Info, as.Rhs[k]); cv != nil && constant.BoolVal(cv) && as.Pos() > lastTrue {
						lastTrue = as.Pos()
					}
				}
			}
		}
		return true
	})
	c.Check(guarded && falsePos > lastTrue, f.Name, "UDP ⇒ level-triggered", f.Decl.Pos(), "EdgeTriggeredIO = false under hasUDP, after the ET normalisation",
		"a UDP listen address no longer forces level-triggered mode (or is overridden afterwards): readUDP reads one datagram per event, so with edge-triggering queued datagrams are left unread until another arrives")
	// hasUDP derives from the parsed scheme prefix "udp"
	derived := false
	ast.Inspect(f.Decl.Body, func(n ast.Node) bool {
		if as, ok := n.(*ast.AssignStmt); ok && len(as.Lhs) == 1 {
			if o, ok := flow.ObjOf(f.Info, as.Lhs[0]).(*types.Var); ok && nameOf(o) == "hasUDP" {
				ast.Inspect(as.Rhs[0], func(x ast.Node) bool {
					if call, ok := x.(*ast.CallExpr); ok && flow.IsPkgFunc(f.Info, call, "strings", "HasPrefix") && len(call.Args) == 2 {
						if cv := flow.ConstOf(f.Info, call.Args[1]); cv != nil && constant.StringVal(cv) == "udp" {
							derived = true
						}
					}
					return true
				})
			}
		}
		return true
	})
	c.Check(derived, f.Name, "hasUDP from the scheme", f.Decl.Pos(), "every udp* scheme counts", "hasUDP is no longer derived from the `udp` scheme prefix of the parsed addresses")
}
