package rules

import (
	"go/ast"
	"go/token"
	"go/types"
	"strings"

	"gnetlint/core"
	"gnetlint/flow"
)

func init() {
	register(&core.Rule{ID: "C05.7", Prop: "C05", MinSites: 3,
		Desc: "publish before start: in the start-up functions no load-balancer registration (a plain append to the loop list) and no write to an engine field is reachable after a loop goroutine was spawned on engine.concurrency, loop back edges included; a running loop's callback may already use Engine.CountConnections/Register, which read that list without synchronisation (enumerated exception: eng.ingress, read only by stop/close after start-up and by the ticker spawned after it)",
		Run:  runC05_7})
}

func runC05_7(c *core.Ctx) {
	v := vocabOf(c)
	if v == nil {
		return
	}
	engineT := c.P.Named("", "engine")
	if !c.Need("engine", engineT) {
		return
	}
	isSpawn := func(f *fn, call *ast.CallExpr) bool {
		cf := flow.CalleeFunc(f.Info, call)
		return cf != nil && cf.Pkg() != nil && nameOf(cf) == "Go" && strings.HasSuffix(cf.Pkg().Path(), "errgroup")
	}
	containsSpawn := func(f *fn, n ast.Node) bool {
		found := false
		ast.Inspect(n, func(x ast.Node) bool {
			if call, ok := x.(*ast.CallExpr); ok && isSpawn(f, call) {
				found = true
			}
			return true
		})
		return found
	}
	isLBRegister := func(f *fn, call *ast.CallExpr) bool {
		cf := flow.CalleeFunc(f.Info, call)
		if cf == nil || nameOf(cf) != "register" {
			return false
		}
		sig, _ := cf.Type().(*types.Signature)
		if sig == nil || sig.Recv() == nil || sig.Params().Len() != 1 {
			return false
		}
		// loadBalancer.register(*eventloop) – interface method or one of its implementations
		return v.isLoopPtr(sig.Params().At(0).Type())
	}
	sites := 0
	for _, f := range v.funcs {
		if f.Decl.Body == nil || !containsSpawn(f, f.Decl.Body) {
			continue
		}
		sites++
		const (
			sQuiet = iota
			sSpawned
		)
		type bad struct {
			pos token.Pos
			msg string
		}
		var bads []bad
		record := false
		au := &flow.Auto{Start: sQuiet}
		au.Node = func(b *flow.Block, i int, n ast.Node, st int) int {
			flow.Events(n, func(x ast.Node) {
				switch y := x.(type) {
				case *ast.CallExpr:
					if isLBRegister(f, y) && st == sSpawned && record {
						bads = append(bads, bad{y.Pos(), "a loop is added to the load balancer (unsynchronised append to its loop list) after a loop goroutine may already be running"})
					}
					spawn := isSpawn(f, y)
					for _, a := range y.Args {
						if fl, ok := ast.Unparen(a).(*ast.FuncLit); ok && containsSpawn(f, fl) {
							spawn = true
						}
					}
					if spawn {
						st = sSpawned
					}
				case *ast.AssignStmt:
					if st != sSpawned || !record {
						return
					}
					for _, l := range y.Lhs {
						sel, ok := ast.Unparen(l).(*ast.SelectorExpr)
						if !ok {
							continue
						}
						fl := flow.FieldOf(f.Info, sel)
						if fl == nil {
							continue
						}
						if t := f.Info.TypeOf(sel.X); t != nil && isNamedOrPtr(t, engineT) {
							if nameOf(fl) == "ingress" {
								continue // table exception, see rule text
							}
							bads = append(bads, bad{y.Pos(), "engine." + fl.Name() + " is written after a loop goroutine may already be running"})
						}
					}
				}
			})
			return st
		}
		g := f.Graph()
		sol := g.Run(au)
		record = true
		for _, b := range g.Blocks {
			if !sol.Seen[b.ID] {
				continue
			}
			for _, s0 := range flow.States(sol.In[b.ID]) {
				st := s0
				for i, n := range b.Nodes {
					st = au.Node(b, i, n, st)
				}
			}
		}
		record = false
		if len(bads) > 0 {
			c.Violate(f.Name, "no shared start-up write after a spawn", bads[0].pos, bads[0].msg+": a callback on that loop can call Engine.CountConnections/Register/Stop, which read the same memory with no happens-before edge (data race, torn slice header)")
			continue
		}
		c.Ok(f.Name, "no shared start-up write after a spawn", f.Decl.Pos(), "all registrations and engine field writes precede the first spawn on every path")
	}
	if sites == 0 {
		c.Undecided("gnet", "start-up functions", 0, "no function spawning on engine.concurrency found")
	}
}

func isNamedOrPtr(t types.Type, n *types.Named) bool {
	if p, ok := t.(*types.Pointer); ok {
		t = p.Elem()
	}
	nn, ok := t.(*types.Named)
	return ok && n != nil && nn.Obj() == n.Obj()
}
