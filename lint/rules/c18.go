package rules

import (
	"go/ast"
	"go/token"
	"go/types"
	"strings"

	"gnetlint/core"
	"gnetlint/flow"
)

func init() {
	describe(&PropInfo{ID: "C18", QuickConfigs: []core.Config{cfgPollOpt},
		Explanation: "Decides the error-containment skeleton: (1) the poll loop of every Poller variant returns only on a non-EINTR failure of the wait syscall or on the two sentinels " +
			"(ErrAcceptSocket, ErrEngineShutdown), so no connection-level error can stop a loop; (2) the sentinels originate only from accept (after the transient table) and from Shutdown actions / exit tasks; " +
			"(3) in the loop-side functions that own a conn, an error of a conn-scoped syscall or poll-registration change is never just returned (Polling drops it): on every such return the connection " +
			"has been closed through (*eventloop).close or the registration-failure path, or a deferred closer covers the named error result; (4) the transient errno tables of accept/read/write/wait map to " +
			"continue / return nil without closing anything; (5) the registration failure path closes the descriptor and releases the conn; (6) the explicit panics of the module are exactly the documented contract checks. " +
			"Bystander stream integrity under faults and implicit panics are not decided.",
		Assumptions: []string{"the kernel reports every failed descriptor through an error return or an event", "Polling ignores non-sentinel callback errors (checked by C18.1)"}})

	register(&core.Rule{ID: "C18.1", Prop: "C18", MinSites: 3,
		Desc: "Polling returns only on the non-EINTR error edge of the wait syscall or on errors.Is(err, ErrAcceptSocket|ErrEngineShutdown)",
		Run:  runC18_1})
	register(&core.Rule{ID: "C18.2", Prop: "C18", MinSites: 8,
		Desc: "sentinel provenance: ErrAcceptSocket is produced only by accept0/accept on a non-transient Accept error; ErrEngineShutdown only on Action==Shutdown edges and by the exit-task closures of stop/Stop/ticker",
		Run:  runC18_2})
	register(&core.Rule{ID: "C18.3", Prop: "C18", MinSites: 6,
		Desc: "conn-scoped failure ⇒ close: a loop-side function that owns a conn never returns the raw error of a syscall/poll-registration call on that conn unless the conn was closed on that path (el.close, registration-failure close, or deferred closer on the named error)",
		Run:  runC18_3})
	register(&core.Rule{ID: "C18.4", Prop: "C18", MinSites: 7,
		Desc: "transient tables: EINTR/ECONNRESET/ECONNABORTED/EAGAIN on accept, EAGAIN on read/write and EINTR on the wait lead to continue/return nil without closing or failing anything",
		Run:  runC18_4})
	register(&core.Rule{ID: "C18.7", Prop: "C18", MinSites: 4,
		Desc: "edge-triggered acceptors drain: a listener callback registered with edgeTriggered=true returns nil only on the EAGAIN edge, and its transient errnos (EINTR, ECONNRESET, ECONNABORTED) lead back to the accept loop",
		Run:  runC18_7})
	register(&core.Rule{ID: "C18.5", Prop: "C18", MinSites: 1,
		Desc: "registration failure: when adding the conn to the poller fails, register0 closes the descriptor and releases the conn before returning, without any handler callback",
		Run:  runC18_5})
	register(&core.Rule{ID: "C18.6", Prop: "C18", MinSites: 5,
		Desc: "explicit panics/fatal exits in non-test module code are exactly the documented contract checks (reader/writer count violations, CeilToPowerOfTwo overflow, kqueue wake-pipe creation)",
		Run:  runC18_6})
}

func sentinel(c *core.Ctx, name string) types.Object { return c.P.Object("pkg/errors", name) }

// isErrorsIs matches errors.Is(x, <obj>) and returns obj.
func isErrorsIs(f *fn, e ast.Expr) types.Object {
	call, ok := ast.Unparen(e).(*ast.CallExpr)
	if !ok || len(call.Args) != 2 || !flow.IsPkgFunc(f.Info, call, "errors", "Is") {
		return nil
	}
	return flow.ObjOf(f.Info, call.Args[1])
}

func isWaitCall(f *fn, call *ast.CallExpr) bool {
	cf := flow.CalleeFunc(f.Info, call)
	if cf == nil {
		return false
	}
	switch nameOf(cf) {
	case "EpollWait", "epollWait", "Kevent":
		return true
	}
	return false
}

func runC18_1(c *core.Ctx) {
	f := getFn(c, "pkg/netpoll", "Poller.Polling")
	acc, shut := sentinel(c, "ErrAcceptSocket"), sentinel(c, "ErrEngineShutdown")
	if f == nil || !c.Need("ErrAcceptSocket", acc) || !c.Need("ErrEngineShutdown", shut) {
		return
	}
	// facts per error-typed local variable (three bits each): the variable holds a value established to be a
	// sentinel / was last assigned by the wait syscall / that and tested non-nil. A copy `a = b` between
	// error variables carries b's facts over to a; any other assignment clears them.
	const (
		fSentinel = 1 << iota
		fSrcWait  // err was last assigned by the wait syscall
		fWaitErr
	)
	slot := map[types.Object]uint{}
	ast.Inspect(f.Decl.Body, func(n ast.Node) bool {
		if id, ok := n.(*ast.Ident); ok {
			if o, ok := f.Info.Defs[id].(*types.Var); ok && o != nil && isErrorType(o.Type()) {
				if _, seen := slot[o]; !seen {
					slot[o] = uint(len(slot))
				}
			}
		}
		return true
	})
	if rl := f.Decl.Type.Results; rl != nil {
		for _, fld := range rl.List {
			for _, nm := range fld.Names {
				if o := f.Info.Defs[nm]; o != nil && isErrorType(o.Type()) {
					if _, seen := slot[o]; !seen {
						slot[o] = uint(len(slot))
					}
				}
			}
		}
	}
	if len(slot) > 20 {
		c.Undecided(f.Name, "error variables", f.Decl.Pos(), "more error-typed locals than the rule tracks")
		return
	}
	get := func(in uint64, o types.Object) uint64 {
		k, ok := slot[o]
		if !ok {
			return 0
		}
		return (in >> (3 * k)) & 7
	}
	set := func(in uint64, o types.Object, v uint64) uint64 {
		k, ok := slot[o]
		if !ok {
			return in
		}
		return in&^(7<<(3*k)) | v<<(3*k)
	}
	p := &flow.Problem{Must: true}
	p.Node = func(b *flow.Block, i int, n ast.Node, in uint64) uint64 {
		flow.Events(n, func(x ast.Node) {
			as, ok := x.(*ast.AssignStmt)
			if !ok {
				return
			}
			isWait := false
			if len(as.Rhs) == 1 {
				if call, ok := ast.Unparen(as.Rhs[0]).(*ast.CallExpr); ok && isWaitCall(f, call) {
					isWait = true
				}
			}
			vals := make([]uint64, len(as.Lhs))
			for k := range as.Lhs {
				if isWait {
					vals[k] = fSrcWait
				} else if len(as.Rhs) == len(as.Lhs) {
					if src := flow.ObjOf(f.Info, as.Rhs[k]); src != nil {
						if _, tracked := slot[src]; tracked {
							vals[k] = get(in, src) // a copy keeps what is known of the source
						} else if src == acc || src == shut {
							vals[k] = fSentinel
						}
					}
				}
			}
			for k, l := range as.Lhs {
				if o := flow.ObjOf(f.Info, l); o != nil && isErrorType(o.Type()) {
					in = set(in, o, vals[k])
				}
			}
		})
		return in
	}
	p.Edge = func(e *flow.Edge, in uint64) uint64 {
		if e.Cond == nil || e.Tag != nil {
			return in
		}
		if o := isErrorsIs(f, e.Cond); o != nil && (o == acc || o == shut) && e.Sense {
			if call, ok := ast.Unparen(e.Cond).(*ast.CallExpr); ok && len(call.Args) == 2 {
				if v := flow.ObjOf(f.Info, call.Args[0]); v != nil {
					in = set(in, v, get(in, v)|fSentinel)
				}
			}
		}
		if x, y, op, ok := flow.Cmp(e.Cond); ok && flow.IsNil(f.Info, y) && isErrorType(f.Info.TypeOf(x)) && (op == token.NEQ) == e.Sense {
			if v := flow.ObjOf(f.Info, x); v != nil && get(in, v)&fSrcWait != 0 {
				in = set(in, v, get(in, v)|fWaitErr)
			}
		}
		return in
	}
	sol := f.Graph().Solve(p)
	sol.AtExit(func(b *flow.Block, facts uint64) {
		good := false
		if r := b.Return; r != nil {
			var res ast.Expr
			if len(r.Results) == 1 {
				res = r.Results[0]
			} else if len(r.Results) == 0 && f.Decl.Type.Results != nil && len(f.Decl.Type.Results.List) == 1 && len(f.Decl.Type.Results.List[0].Names) == 1 {
				res = f.Decl.Type.Results.List[0].Names[0]
			}
			if res != nil {
				o := flow.ObjOf(f.Info, res)
				if o == nil {
					if id, ok := ast.Unparen(res).(*ast.Ident); ok {
						o = f.Info.Defs[id]
					}
				}
				good = o != nil && (o == acc || o == shut || get(facts, o)&(fSentinel|fWaitErr) != 0)
			}
		}
		c.Check(good, f.Name, "return from the poll loop", b.Return.Pos(), "loop exits only on a sentinel or a failing wait",
			"Polling can return on an ordinary callback/task error: a failure on one connection (or a failing task) would stop the whole event loop and all its connections")
	})
}

func runC18_2(c *core.Ctx) {
	v := vocabOf(c)
	if v == nil {
		return
	}
	acc, shut := sentinel(c, "ErrAcceptSocket"), sentinel(c, "ErrEngineShutdown")
	shutdownAction, _ := c.P.Object("", "Shutdown").(*types.Const)
	trig := c.P.Func("pkg/netpoll", "Poller.Trigger")
	if !c.Need("ErrAcceptSocket", acc) || !c.Need("ErrEngineShutdown", shut) || !c.Need("Shutdown", shutdownAction) || !c.Need("Trigger", trig) {
		return
	}
	exitTaskOwners := map[string]bool{"gnet.(*engine).stop": true, "gnet.(*Client).Stop": true, "gnet.(*eventloop).ticker": true}
	for _, f := range v.funcs {
		// literal bodies passed to Trigger that only return the shutdown sentinel
		exitLits := map[*ast.FuncLit]bool{}
		for _, call := range callsIn(f.Decl.Body, true) {
			if flow.IsCall(f.Info, call, trig) && len(call.Args) == 3 {
				if fl, ok := seeThrough(f, call.Args[1]).(*ast.FuncLit); ok {
					exitLits[fl] = true
				}
			}
		}
		// classify every reference to a sentinel
		type ref struct {
			id  *ast.Ident
			obj types.Object
		}
		var refs []ref
		ast.Inspect(f.Decl.Body, func(n ast.Node) bool {
			if id, ok := n.(*ast.Ident); ok {
				if o := f.Info.Uses[id]; o != nil && (o == acc || o == shut) {
					refs = append(refs, ref{id, o})
				}
			}
			return true
		})
		if len(refs) == 0 {
			continue
		}
		// comparison uses
		cmpUse := map[*ast.Ident]bool{}
		ast.Inspect(f.Decl.Body, func(n ast.Node) bool {
			if call, ok := n.(*ast.CallExpr); ok && flow.IsPkgFunc(f.Info, call, "errors", "Is") && len(call.Args) == 2 {
				ast.Inspect(call.Args[1], func(x ast.Node) bool {
					if id, ok := x.(*ast.Ident); ok {
						cmpUse[id] = true
					}
					return true
				})
			}
			return true
		})
		// for returns: facts at the return
		bodies := []*ast.BlockStmt{f.Decl.Body}
		litOf := map[*ast.BlockStmt]*ast.FuncLit{}
		for _, fl := range allLits(f.Decl.Body) {
			bodies = append(bodies, fl.Body)
			litOf[fl.Body] = fl
		}
		done := map[*ast.Ident]bool{}
		for _, body := range bodies {
			g := flow.New(c.P.Fset, f.Info, body)
			const (
				fShutAction = 1 << iota
				fAcceptFail
			)
			p := &flow.Problem{Must: true}
			p.Edge = func(e *flow.Edge, in uint64) uint64 {
				if e.Cond == nil {
					return in
				}
				if e.Tag != nil {
					if e.Sense && flow.ObjOf(f.Info, e.Cond) == types.Object(shutdownAction) {
						in |= fShutAction
					}
					// switch err { ... default: } – reached after every listed errno (and nil) was excluded
					if !e.Sense && isErrorType(f.Info.TypeOf(e.Tag)) && flow.IsNil(f.Info, e.Cond) {
						in |= fAcceptFail
					}
					return in
				}
				if x, y, op, ok := flow.Cmp(e.Cond); ok && op == token.EQL && e.Sense &&
					(flow.ObjOf(f.Info, y) == types.Object(shutdownAction) || flow.ObjOf(f.Info, x) == types.Object(shutdownAction)) {
					in |= fShutAction
				}
				// if err != nil { … } after the transient errnos were dealt with
				if x, y, op, ok := flow.Cmp(e.Cond); ok && flow.IsNil(f.Info, y) && isErrorType(f.Info.TypeOf(x)) && (op == token.NEQ) == e.Sense {
					in |= fAcceptFail
				}
				return in
			}
			sol := g.Solve(p)
			sol.AtExit(func(b *flow.Block, facts uint64) {
				r := b.Return
				for _, res := range r.Results {
					id := sentinelIdent(res)
					if id == nil {
						continue
					}
					o := f.Info.Uses[id]
					if o != acc && o != shut {
						continue
					}
					done[id] = true
					switch {
					case o == shut && litOf[body] != nil && exitLits[litOf[body]] && exitTaskOwners[f.Name]:
						c.Ok(f.Name, "exit task returns ErrEngineShutdown", r.Pos(), "exit signal submitted by the stop path")
					case o == shut:
						c.Check(facts&fShutAction != 0, f.Name, "return ErrEngineShutdown", r.Pos(), "only when the handler returned Shutdown",
							"ErrEngineShutdown is returned on a path that is not guarded by Action == Shutdown: an ordinary event or failure would stop the engine")
					case o == acc:
						okFn := f.Name == "gnet.(*eventloop).accept0" || f.Name == "gnet.(*eventloop).accept"
						c.Check(okFn && facts&fAcceptFail != 0, f.Name, "return ErrAcceptSocket", r.Pos(), "only for a non-transient Accept error",
							"ErrAcceptSocket is returned outside the non-transient default branch of accept: a connection-level or transient error would stop the loop")
					}
				}
			})
		}
		for _, r := range refs {
			if done[r.id] || cmpUse[r.id] {
				if cmpUse[r.id] {
					c.Ok(f.Name, "sentinel compared", r.id.Pos(), "comparison only")
				}
				continue
			}
			c.Violate(f.Name, "sentinel used as a value", r.id.Pos(), r.obj.Name()+" is used other than in errors.Is or a guarded return: its provenance can no longer be enumerated")
		}
	}
}

func sentinelIdent(e ast.Expr) *ast.Ident {
	switch x := ast.Unparen(e).(type) {
	case *ast.Ident:
		return x
	case *ast.SelectorExpr:
		return x.Sel
	}
	return nil
}

// connScopedCall: a syscall or poller registration call taking <conn>.fd / &<conn>.pollAttachment.
func connScopedCall(v *vocab, f *fn, call *ast.CallExpr) string {
	cf := flow.CalleeFunc(f.Info, call)
	pkg := ""
	name := ""
	if cf != nil && cf.Pkg() != nil {
		pkg, name = cf.Pkg().Path(), cf.Pkg().Name()+"."+flow.QualName(cf)
	} else if o, ok := flow.Callee(f.Info, call).(*types.Var); ok {
		if vs := flow.FuncValuesOfVar(f.Info, f.Decl.Body, o); len(vs) > 0 && vs[0].Pkg() != nil {
			pkg, name = vs[0].Pkg().Path(), o.Name()
		}
	}
	// I/O and poll-registration calls only: socket-option setters report to the user and do not affect the I/O state
	if !isFdUsePkg(pkg) || strings.HasSuffix(pkg, "/pkg/socket") {
		return ""
	}
	for _, a := range call.Args {
		fld := flow.FieldOf(f.Info, stripAddr(a))
		if fld == v.fdF || fld == v.pollAtt {
			return name
		}
	}
	return ""
}

func runC18_3(c *core.Ctx) {
	v := vocabOf(c)
	if v == nil {
		return
	}
	connOpen := c.P.Func("", "conn.open")
	for _, f := range v.funcs {
		// only functions that own a conn and are not user-facing API without a closer... the rule is about
		// errors that would otherwise vanish: functions reachable from the poll loop / task queue
		hasConn := false
		if rv := f.recvVar(); rv != nil && v.isConnPtr(rv.Type()) {
			hasConn = true
		}
		for i := 0; ; i++ {
			pv := f.param(i)
			if pv == nil {
				break
			}
			if v.isConnPtr(pv.Type()) {
				hasConn = true
			}
		}
		if !hasConn || f.Name == "gnet.(*conn).open" || f.Name == "gnet.(*conn).sendTo" {
			// conn.open is a helper whose error must be handled by its caller (checked below); sendTo is datagram I/O reported to the user
			continue
		}
		// which error variables/expressions carry a conn-scoped failure?
		g := f.Graph()
		errRes := namedErrResult(f)
		// deferred closer on the named error covers every return
		closerCovers := false
		for _, d := range g.Defers {
			if fl, ok := d.Call.Fun.(*ast.FuncLit); ok && errRes != nil {
				lg := f.litGraph(fl)
				pp := &flow.Problem{Must: true}
				pp.Edge = func(e *flow.Edge, in uint64) uint64 {
					if e.Cond != nil && e.Tag == nil {
						if x, y, op, ok := flow.Cmp(e.Cond); ok && flow.IsNil(f.Info, y) && flow.ObjOf(f.Info, x) == errRes && (op == token.NEQ) == e.Sense {
							in |= 1
						}
					}
					return in
				}
				ls := lg.Solve(pp)
				ls.Walk(func(b *flow.Block, i int, n ast.Node, before uint64) {
					for _, call := range flow.Calls(n) {
						if flow.IsCall(f.Info, call, v.closeFn) && before&1 != 0 {
							closerCovers = true
						}
					}
				})
			}
		}
		// taint: variables assigned from conn-scoped calls (or from conn.open)
		const (
			fTaint = 1 << iota // the tracked error variable currently holds a conn-scoped failure result
			fClosed
			fAgain // known to be EAGAIN (transient)
		)
		isScoped := func(e ast.Expr) string {
			call, ok := ast.Unparen(e).(*ast.CallExpr)
			if !ok {
				return ""
			}
			if n := connScopedCall(v, f, call); n != "" {
				return n
			}
			if flow.IsCall(f.Info, call, connOpen) {
				return "(*conn).open"
			}
			// os.NewSyscallError(_, <scoped>) wraps
			if flow.IsPkgFunc(f.Info, call, "os", "NewSyscallError") && len(call.Args) == 2 {
				if inner, ok := ast.Unparen(call.Args[1]).(*ast.CallExpr); ok {
					return connScopedCall(v, f, inner)
				}
			}
			return ""
		}
		// we track all error-typed locals collectively (sound enough here: one error variable per function)
		p := &flow.Problem{Must: false}
		p.Node = func(b *flow.Block, i int, n ast.Node, in uint64) uint64 {
			flow.Events(n, func(x ast.Node) {
				switch e := x.(type) {
				case *ast.AssignStmt:
					if len(e.Rhs) == 1 {
						if isScoped(e.Rhs[0]) != "" {
							for _, l := range e.Lhs {
								if o := flow.ObjOf(f.Info, l); o != nil && isErrorType(o.Type()) {
									in |= fTaint
									in &^= fAgain
								}
							}
						} else {
							for _, l := range e.Lhs {
								if o := flow.ObjOf(f.Info, l); o != nil && isErrorType(o.Type()) {
									in &^= fTaint | fAgain
								}
							}
						}
					}
				case *ast.CallExpr:
					if flow.IsCall(f.Info, e, v.closeFn) {
						in |= fClosed
					}
					if flow.IsPkgFunc(f.Info, e, unixPkg, "Close") && len(e.Args) == 1 && flow.FieldOf(f.Info, e.Args[0]) == v.fdF {
						in |= fClosed
					}
				}
			})
			return in
		}
		// path-sensitive on (taint, closed): use automaton
		au := &flow.Auto{Start: 0}
		au.Node = func(b *flow.Block, i int, n ast.Node, s int) int { return int(p.Node(b, i, n, uint64(s))) }
		au.Edge = func(e *flow.Edge, s int) int {
			if e.Cond == nil {
				return s
			}
			if e.Tag != nil {
				if isErrorType(f.Info.TypeOf(e.Tag)) && e.Sense {
					if flow.IsNil(f.Info, e.Cond) {
						return s &^ fTaint
					}
					if o := flow.ObjOf(f.Info, e.Cond); o != nil && nameOf(o) == "EAGAIN" {
						return s | fAgain
					}
				}
				return s
			}
			if x, y, op, ok := flow.Cmp(e.Cond); ok && isErrorType(f.Info.TypeOf(x)) {
				if flow.IsNil(f.Info, y) && (op == token.EQL) == e.Sense {
					return s &^ fTaint // err == nil
				}
			}
			if isErrnoCmp(f, e.Cond, "EAGAIN") && e.Sense {
				return s | fAgain
			}
			return s
		}
		sol := g.Run(au)
		k := 0
		sol.AtExit(func(b *flow.Block, _ uint64) {
			r := b.Return
			// what does the return statement return as error?
			var errExpr ast.Expr
			for _, res := range r.Results {
				if isErrorType(f.Info.TypeOf(res)) {
					errExpr = res
				}
			}
			direct := ""
			if errExpr != nil {
				direct = isScoped(errExpr)
			}
			returnsVar := errExpr != nil && flow.ObjOf(f.Info, errExpr) != nil && !flow.IsNil(f.Info, errExpr)
			if call, ok := ast.Unparen(errExpr).(*ast.CallExpr); ok && errExpr != nil && flow.IsPkgFunc(f.Info, call, "os", "NewSyscallError") && len(call.Args) == 2 {
				if o := flow.ObjOf(f.Info, call.Args[1]); o != nil && isErrorType(o.Type()) {
					returnsVar = true // a wrapped error variable
				}
			}
			bare := len(r.Results) == 0 && errRes != nil
			if errExpr != nil && flow.IsNil(f.Info, errExpr) {
				return
			}
			// states in which a tainted error leaves the function
			bad := false
			st := sol.In[b.ID]
			// replay the block per state up to the return
			for _, s0 := range flow.States(st) {
				s := s0
				for _, n := range b.Nodes {
					if n == ast.Node(r) {
						break
					}
					s = int(p.Node(b, 0, n, uint64(s)))
				}
				tainted := s&fTaint != 0 && (returnsVar || bare)
				if direct != "" {
					tainted = true
				}
				if tainted && s&fClosed == 0 && s&fAgain == 0 {
					bad = true
				}
			}
			if !(direct != "" || returnsVar || bare) {
				return
			}
			k++
			what := direct
			if what == "" {
				what = "a conn-scoped call"
			}
			switch {
			case !bad:
				c.Ok(f.Name, "error return #"+itoa(k), r.Pos(), "no raw conn-scoped failure leaves without a close")
			case closerCovers:
				c.Ok(f.Name, "error return #"+itoa(k), r.Pos(), "deferred closer on the named error result closes the conn")
			default:
				c.Violate(f.Name, "error return #"+itoa(k), r.Pos(), "the error of "+what+" is returned without closing the connection: the poll loop drops the error, so the connection stays registered with a failed I/O state and its handler never sees OnClose")
			}
		})
	}
}

func runC18_4(c *core.Ctx) {
	v := vocabOf(c)
	if v == nil {
		return
	}
	type req struct {
		fn     string
		rel    string
		errnos []string
	}
	reqs := []req{
		{"eventloop.accept0", "", []string{"EINTR", "ECONNRESET", "ECONNABORTED", "EAGAIN"}},
		{"eventloop.accept", "", []string{"EINTR", "ECONNRESET", "ECONNABORTED", "EAGAIN"}},
		{"eventloop.read", "", []string{"EAGAIN"}},
		{"eventloop.write", "", []string{"EAGAIN"}},
		{"eventloop.readUDP", "", []string{"EAGAIN"}},
		{"Poller.Polling", "pkg/netpoll", []string{"EINTR"}},
	}
	for _, rq := range reqs {
		f := getFn(c, rq.rel, rq.fn)
		if f == nil {
			continue
		}
		g := f.Graph()
		heads := g.LoopHeads()
		for _, en := range rq.errnos {
			// edges establishing err == errno
			var starts []*flow.Block
			for _, b := range g.Blocks {
				for _, e := range b.Succs {
					if e.Cond == nil || !e.Sense {
						continue
					}
					if e.Tag != nil {
						if o := flow.ObjOf(f.Info, e.Cond); o != nil && o.Pkg() != nil && o.Pkg().Path() == unixPkg && o.Name() == en && isErrorType(f.Info.TypeOf(e.Tag)) {
							starts = append(starts, e.To)
						}
					} else if isErrnoCmp(f, e.Cond, en) {
						starts = append(starts, e.To)
					}
				}
			}
			if len(starts) == 0 {
				c.Violate(f.Name, "transient "+en, f.Decl.Pos(), en+" is no longer recognised as transient here: it would be treated as a hard failure")
				continue
			}
			bad := ""
			var badPos token.Pos
			seen := map[*flow.Block]bool{}
			var dfs func(b *flow.Block)
			dfs = func(b *flow.Block) {
				if seen[b] {
					return
				}
				seen[b] = true
				for _, n := range b.Nodes {
					for _, call := range flow.Calls(n) {
						if flow.IsCall(f.Info, call, v.closeFn) || flow.IsPkgFunc(f.Info, call, unixPkg, "Close") {
							bad, badPos = "a close", call.Pos()
						}
					}
				}
				if b.Return != nil {
					for _, res := range b.Return.Results {
						if isErrorType(f.Info.TypeOf(res)) && !flow.IsNil(f.Info, res) {
							bad, badPos = "a non-nil error return", b.Return.Pos()
						}
					}
					return
				}
				for _, e := range b.Succs {
					if heads[e.To] {
						continue // back to the loop: retried
					}
					// leaving through another case test of the same switch is not part of this errno's handling
					dfs(e.To)
				}
			}
			for _, s := range starts {
				dfs(s)
			}
			c.Check(bad == "", f.Name, "transient "+en, f.blockPos(starts[0]), en+" leads to retry/return nil without side effects",
				"on "+en+" the code reaches "+bad+": a transient condition becomes visible (connection closed or loop stopped)")
			_ = badPos
		}
	}
}

func runC18_5(c *core.Ctx) {
	v := vocabOf(c)
	if v == nil {
		return
	}
	f := getFn(c, "", "eventloop.register0")
	if f == nil {
		return
	}
	const (
		sInit = iota
		sFailed
		sFdClosed
		sDone
	)
	cbOnFail := false
	au := &flow.Auto{Start: sInit}
	au.Node = func(b *flow.Block, i int, n ast.Node, s int) int {
		for _, call := range flow.Calls(n) {
			switch {
			case flow.IsPkgFunc(f.Info, call, unixPkg, "Close") && len(call.Args) == 1 && flow.FieldOf(f.Info, call.Args[0]) == v.fdF && s == sFailed:
				s = sFdClosed
			case flow.IsCall(f.Info, call, v.releaseFn) && s == sFdClosed:
				s = sDone
			case v.isUserCall(f.Info, call) != "" && (s == sFailed || s == sFdClosed || s == sDone):
				cbOnFail = true
			}
		}
		return s
	}
	au.Edge = func(e *flow.Edge, s int) int {
		if s == sInit && e.Cond != nil && e.Tag == nil {
			if x, y, op, ok := flow.Cmp(e.Cond); ok && flow.IsNil(f.Info, y) && isErrorType(f.Info.TypeOf(x)) && (op == token.NEQ) == e.Sense {
				return sFailed
			}
		}
		return s
	}
	sol := f.Graph().Run(au)
	sol.AtExit(func(b *flow.Block, _ uint64) {
		st := sol.Out(b)
		if st&(1<<sFailed|1<<sFdClosed|1<<sDone) == 0 {
			return
		}
		c.Check(st&(1<<sFailed|1<<sFdClosed) == 0 && !cbOnFail, f.Name, "registration failure path", b.Return.Pos(), "descriptor closed and conn released, no callback",
			"when adding the conn to the poller fails, register0 returns without unix.Close(c.fd) and c.release() (descriptor and pooled buffers leak), or invokes a handler callback for a connection that was never opened")
	})
}

var panicTable = map[string]string{
	"math.CeilToPowerOfTwo":            "documented: no power of two fits in int",
	"ring.(*Buffer).ReadFrom":          "io.Reader contract violation (negative count)",
	"ring.(*Buffer).WriteTo":           "io.Writer contract violation (count > len)",
	"linkedlist.(*Buffer).ReadFrom":    "io.Reader contract violation (negative count)",
	"linkedlist.(*Buffer).WriteTo":     "io.Writer contract violation (count > len)",
	"netpoll.(*Poller).addWakeupEvent": "kqueue wake-up pipe cannot be created at start-up (netbsd/openbsd/dragonfly variant)",
}

func runC18_6(c *core.Ctx) {
	// which module functions are mentioned anywhere in the module (outside their own declaration)?
	mentioned := map[types.Object]bool{}
	for _, pk := range c.P.Pkgs {
		for _, file := range pk.Syntax {
			for _, decl := range file.Decls {
				fd, _ := decl.(*ast.FuncDecl)
				var self types.Object
				if fd != nil {
					self = pk.TypesInfo.Defs[fd.Name]
				}
				ast.Inspect(decl, func(n ast.Node) bool {
					if id, ok := n.(*ast.Ident); ok {
						if o, ok := pk.TypesInfo.Uses[id].(*types.Func); ok && o != self {
							mentioned[o.Origin()] = true
						}
					}
					return true
				})
			}
		}
	}
	allFuncs(c, func(f *fn) {
		if strings.HasSuffix(f.Pkg.PkgPath, "/pkg/logging") {
			return
		}
		for _, call := range callsIn(f.Decl.Body, true) {
			if !flow.NeverReturns(f.Info, call) {
				continue
			}
			why, ok := panicTable[f.Name]
			if !ok && !mentioned[f.Obj.Origin()] && !core.InBaseline(f.Obj) {
				// a new function nobody in the library calls: its argument check cannot be reached from a connection's I/O path
				c.Ok(f.Name, "explicit panic/fatal", call.Pos(), "new function that the library itself never calls")
				continue
			}
			c.Check(ok, f.Name, "explicit panic/fatal", call.Pos(), "documented contract check: "+why,
				"a new explicit panic/fatal exit was added to library code: a condition on one connection (or a bad argument) now brings the whole process down")
		}
	})
}

func runC18_7(c *core.Ctx) {
	v := vocabOf(c)
	if v == nil {
		return
	}
	addRead := c.P.Func("pkg/netpoll", "Poller.AddRead")
	pack := c.P.Func("", "listener.packPollAttachment")
	if !c.Need("Poller.AddRead", addRead) || !c.Need("listener.packPollAttachment", pack) {
		return
	}
	// handlers registered edge-triggered
	etHandlers := map[*types.Func]token.Pos{}
	for _, f := range v.funcs {
		for _, call := range callsIn(f.Decl.Body, true) {
			if !flow.IsCall(f.Info, call, addRead) || len(call.Args) != 2 {
				continue
			}
			cv := flow.ConstOf(f.Info, call.Args[1])
			if cv == nil || cv.String() != "true" {
				continue
			}
			inner, ok := ast.Unparen(call.Args[0]).(*ast.CallExpr)
			if !ok || !flow.IsCall(f.Info, inner, pack) || len(inner.Args) != 1 {
				continue
			}
			if sel, ok := ast.Unparen(inner.Args[0]).(*ast.SelectorExpr); ok {
				if s, ok := f.Info.Selections[sel]; ok {
					if h, ok := s.Obj().(*types.Func); ok {
						etHandlers[h] = call.Pos()
					}
				}
			}
		}
	}
	if len(etHandlers) == 0 {
		c.Violate("gnet", "edge-triggered listener registration", token.NoPos, "no listener callback registered with edgeTriggered=true was found (the main reactor registers accept0 that way)")
		return
	}
	for h := range etHandlers {
		f := fnOf(c, h)
		if f == nil {
			continue
		}
		g := f.Graph()
		heads := g.LoopHeads()
		// (a) nil returns only under EAGAIN
		const fAgain = 1
		p := &flow.Problem{Must: true}
		p.Edge = func(e *flow.Edge, in uint64) uint64 {
			if heads[e.To] {
				return 0
			}
			if e.Cond == nil || !e.Sense {
				return in
			}
			if e.Tag != nil {
				if o := flow.ObjOf(f.Info, e.Cond); o != nil && o.Pkg() != nil && o.Pkg().Path() == unixPkg && nameOf(o) == "EAGAIN" && isErrorType(f.Info.TypeOf(e.Tag)) {
					in |= fAgain
				}
			} else if isErrnoCmp(f, e.Cond, "EAGAIN") {
				in |= fAgain
			}
			return in
		}
		p.Node = func(b *flow.Block, i int, n ast.Node, in uint64) uint64 {
			if i == 0 && heads[b] {
				return 0
			}
			return in
		}
		sol := g.Solve(p)
		k := 0
		sol.AtExit(func(b *flow.Block, facts uint64) {
			r := b.Return
			if len(r.Results) != 1 || !flow.IsNil(f.Info, r.Results[0]) {
				return
			}
			k++
			c.Check(facts&fAgain != 0, f.Name, "return nil #"+itoa(k), r.Pos(), "the accept queue was drained (EAGAIN)",
				"an edge-triggered acceptor returns nil without having seen EAGAIN: connections still waiting in the accept queue produce no further event and are never accepted until an unrelated connection arrives", sol.Witness(b, fAgain)...)
		})
		// (b) transient errnos loop
		for _, en := range []string{"EINTR", "ECONNRESET", "ECONNABORTED"} {
			var starts []*flow.Block
			for _, b := range g.Blocks {
				for _, e := range b.Succs {
					if e.Cond == nil || !e.Sense {
						continue
					}
					if e.Tag != nil {
						if o := flow.ObjOf(f.Info, e.Cond); o != nil && o.Pkg() != nil && o.Pkg().Path() == unixPkg && o.Name() == en {
							starts = append(starts, e.To)
						}
					} else if isErrnoCmp(f, e.Cond, en) {
						starts = append(starts, e.To)
					}
				}
			}
			if len(starts) == 0 {
				continue // C18.4 reports the missing table entry
			}
			returns := false
			seen := map[*flow.Block]bool{}
			var dfs func(b *flow.Block)
			dfs = func(b *flow.Block) {
				if seen[b] {
					return
				}
				seen[b] = true
				if b.Return != nil {
					returns = true
					return
				}
				for _, e := range b.Succs {
					if heads[e.To] {
						continue
					}
					dfs(e.To)
				}
			}
			for _, s := range starts {
				dfs(s)
			}
			c.Check(!returns, f.Name, "transient "+en+" retries the accept", f.blockPos(starts[0]), "control goes back to the accept loop",
				"on "+en+" the edge-triggered acceptor returns instead of retrying: the remaining queued connections get no event any more")
		}
	}
}

func init() {
	register(&core.Rule{ID: "C18.12", Prop: "C18", MinSites: 1,
		Desc: "a connection that left the registry gets its descriptor closed whatever else fails: in eventloop.close every return reachable after connections.delConn(c) has passed unix.Close(c.fd) – a failing poller.Delete, a failed flush or the handler's action cannot skip it, since nothing can find the connection again to close it later (the descriptor leaks for the life of the process and the peer never sees the end of the stream)",
		Run:  runC18_12})
	alias("C07", "C07.20", "C18.12", "a descriptor whose owner has been dropped from every table must be closed on that path")
}

func runC18_12(c *core.Ctx) {
	v := vocabOf(c)
	if v == nil {
		return
	}
	f := fnOf(c, v.closeFn)
	if f == nil || v.delConn == nil {
		return
	}
	const (
		fRemoved = 1 << iota
		fClosed
	)
	isClose := func(call *ast.CallExpr) bool {
		return flow.IsPkgFunc(f.Info, call, unixPkg, "Close") && len(call.Args) == 1 && flow.FieldOf(f.Info, seeThrough(f, call.Args[0])) == v.fdF
	}
	// may-analysis for "removed", must-analysis for "closed": two problems
	may := &flow.Problem{Must: false}
	may.Node = func(b *flow.Block, i int, n ast.Node, in uint64) uint64 {
		for _, call := range flow.Calls(n) {
			if flow.IsCall(f.Info, call, v.delConn) {
				in |= fRemoved
			}
		}
		return in
	}
	must := &flow.Problem{Must: true}
	must.Node = func(b *flow.Block, i int, n ast.Node, in uint64) uint64 {
		for _, call := range flow.Calls(n) {
			if isClose(call) {
				in |= fClosed
			}
		}
		return in
	}
	g := f.Graph()
	ms, cs := g.Solve(may), g.Solve(must)
	k := 0
	removedSomewhere := false
	for _, b := range g.Exits() {
		if ms.Out(b)&fRemoved == 0 {
			continue // the stale-connection return before anything happened
		}
		removedSomewhere = true
		k++
		c.Check(cs.Out(b)&fClosed != 0, f.Name, "descriptor closed before return #"+itoa(k), b.Return.Pos(), "unix.Close(c.fd) on every path from delConn to this return",
			"eventloop.close can return after delConn(c) without having called unix.Close(c.fd) (a failing step in between returns early): the connection is in no table any more, so nothing ever closes its descriptor – it leaks until the process exits and the peer never sees FIN/RST")
	}
	if !removedSomewhere {
		c.Violate(f.Name, "delConn in close", f.Decl.Pos(), "eventloop.close never reaches a return after delConn: the rule lost its subject")
	}
}
