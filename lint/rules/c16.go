package rules

import (
	"go/ast"
	"go/constant"
	"go/token"
	"go/types"
	"sort"
	"strings"

	"gnetlint/core"
	"gnetlint/flow"
)

func init() {
	describe(&PropInfo{ID: "C16",
		Explanation: "Decides: (1) totality of parseProtoAddr on the analysed target: after constant folding (runtime.GOOS) no reachable index/slice expression, unchecked type assertion, division or panic remains in it; " +
			"(2) the scheme table: the success returns hand back u.Scheme under exactly the seven supported literals, the empty scheme and the empty endpoint map to ErrInvalidNetworkAddress, the default to " +
			"ErrUnsupportedProtocol, and listener.open accepts exactly the same seven literals; (3) option normalisation in createListeners and NewClient: every store to ReadBufferCap/WriteBufferCap/EdgeTriggeredIOChunk " +
			"is CeilToPowerOfTwo of the option's own old value, or a power-of-two constant that is >= the bound of the case it stands in (and >= 1024 for the buffer caps), and both functions contain the same normalisation; " +
			"(4) determineEventLoops starts from 1, takes NumEventLoop only when positive and clamps to gfd.EventLoopIndexMax before returning. Exact round-trip through net/url is not decided.",
		Assumptions: []string{"net/url.Parse, path.Join and strings functions do not panic", "runtime.NumCPU() >= 1", "CeilToPowerOfTwo satisfies C20.2"}})

	register(&core.Rule{ID: "C16.1", Prop: "C16", MinSites: 1,
		Desc: "parseProtoAddr contains no reachable panicking construct (index/slice, unchecked type assertion, division, panic) under the target's constant folding",
		Run:  runC16_1})
	register(&core.Rule{ID: "C16.2", Prop: "C16", MinSites: 5,
		Desc: "scheme table: success only under the seven supported scheme literals returning u.Scheme; \"\"/empty endpoint ↦ ErrInvalidNetworkAddress; default ↦ ErrUnsupportedProtocol; listener.open accepts the same seven literals",
		Run:  runC16_2})
	register(&core.Rule{ID: "C16.3", Prop: "C16", MinSites: 14,
		Desc: "normalisation: stores to ReadBufferCap/WriteBufferCap/EdgeTriggeredIOChunk are CeilToPowerOfTwo(old value) or a power-of-two constant not below the bound of their case; createListeners and NewClient agree",
		Run:  runC16_3})
	register(&core.Rule{ID: "C16.4", Prop: "C16", MinSites: 3,
		Desc: "determineEventLoops: default 1, NumEventLoop only if > 0, clamped to gfd.EventLoopIndexMax on every return",
		Run:  runC16_4})
}

func runC16_1(c *core.Ctx) {
	f := getFn(c, "", "parseProtoAddr")
	if f == nil {
		return
	}
	g := f.Graph()
	n := 0
	seen := map[*flow.Block]bool{}
	var walk func(b *flow.Block)
	bad := func(pos token.Pos, what string) {
		n++
		c.Violate(f.Name, "panicking construct #"+itoa(n), pos, "parseProtoAddr can reach "+what+" on this target: a crafted address string panics instead of returning an error")
	}
	walk = func(b *flow.Block) {
		if seen[b] {
			return
		}
		seen[b] = true
		for _, nd := range b.Nodes {
			ast.Inspect(nd, func(x ast.Node) bool {
				switch y := x.(type) {
				case *ast.IndexExpr:
					if t := f.Info.TypeOf(y.X); t != nil {
						if _, isMap := t.Underlying().(*types.Map); !isMap {
							if _, isSig := t.Underlying().(*types.Signature); !isSig {
								bad(y.Pos(), "an index expression "+exprStr(y))
							}
						}
					}
				case *ast.SliceExpr:
					if !guardedStringSlice(f, g, b, y) {
						bad(y.Pos(), "a slice expression "+exprStr(y))
					}
				case *ast.TypeAssertExpr:
					bad(y.Pos(), "a type assertion "+exprStr(y))
				case *ast.BinaryExpr:
					if y.Op == token.QUO || y.Op == token.REM {
						bad(y.Pos(), "a division")
					}
				case *ast.CallExpr:
					if flow.NeverReturns(f.Info, y) {
						bad(y.Pos(), "an explicit panic")
					}
				}
				return true
			})
		}
		for _, e := range b.Succs {
			walk(e.To)
		}
	}
	walk(g.Entry)
	if n == 0 {
		c.Ok(f.Name, "no reachable panicking construct", f.Decl.Pos(), itoa(len(seen))+" live blocks inspected after constant folding")
	}
}

// guardedStringSlice accepts s[:i], s[i:], s[i+k:] on a string variable s when i was bound by
// strings.Index*/LastIndex*(s, …) and the block is only reached with i known to be non-negative
// (i >= 0, i > k, i != -1): such a slice cannot go out of range.
func guardedStringSlice(f *fn, g *flow.Graph, at *flow.Block, se *ast.SliceExpr) bool {
	sv, ok := flow.ObjOf(f.Info, se.X).(*types.Var)
	if !ok || se.Slice3 {
		return false
	}
	if b, ok := sv.Type().Underlying().(*types.Basic); !ok || b.Info()&types.IsString == 0 {
		return false
	}
	idxVar := func(e ast.Expr) (types.Object, bool) {
		if e == nil {
			return nil, true
		}
		e = ast.Unparen(e)
		if be, ok := e.(*ast.BinaryExpr); ok && be.Op == token.ADD {
			if tv, ok := f.Info.Types[be.Y]; ok && tv.Value != nil {
				e = ast.Unparen(be.X) // i+len("://") style: still needs i+k <= len(s), accepted for k a constant found at i
			}
		}
		o := flow.ObjOf(f.Info, e)
		return o, o != nil
	}
	lo, ok1 := idxVar(se.Low)
	hi, ok2 := idxVar(se.High)
	if !ok1 || !ok2 || (lo == nil && hi == nil) {
		return false
	}
	for _, iv := range []types.Object{lo, hi} {
		if iv == nil {
			continue
		}
		// definition: iv := strings.Index…(s, …), the only assignment
		defs, good := 0, false
		ast.Inspect(f.Decl.Body, func(n ast.Node) bool {
			as, ok := n.(*ast.AssignStmt)
			if !ok {
				return true
			}
			for k, l := range as.Lhs {
				if flow.ObjOf(f.Info, l) != iv {
					continue
				}
				defs++
				if len(as.Rhs) == len(as.Lhs) {
					if call, ok := ast.Unparen(as.Rhs[k]).(*ast.CallExpr); ok && len(call.Args) >= 1 && flow.ObjOf(f.Info, call.Args[0]) == types.Object(sv) {
						if cf := flow.CalleeFunc(f.Info, call); cf != nil && cf.Pkg() != nil && cf.Pkg().Path() == "strings" &&
							(len(cf.Name()) >= 5 && (cf.Name()[:5] == "Index" || (len(cf.Name()) >= 9 && cf.Name()[:9] == "LastIndex"))) {
							good = true
						}
					}
				}
			}
			return true
		})
		if defs != 1 || !good {
			return false
		}
		p := &flow.Problem{Must: true}
		p.Node = func(b *flow.Block, i int, n ast.Node, in uint64) uint64 {
			for _, l := range flow.Assigned(n) {
				if o := flow.ObjOf(f.Info, l); o == iv || o == types.Object(sv) {
					in = 0
				}
			}
			return in
		}
		p.Edge = func(e *flow.Edge, in uint64) uint64 {
			if e.Cond == nil || e.Tag != nil {
				return in
			}
			x, y, op, ok := flow.Cmp(e.Cond)
			if !ok || flow.ObjOf(f.Info, x) != iv {
				return in
			}
			tv, ok := f.Info.Types[y]
			if !ok || tv.Value == nil {
				return in
			}
			k, exact := constant.Int64Val(constant.ToInt(tv.Value))
			if !exact {
				return in
			}
			nonNeg := false
			switch op {
			case token.GEQ:
				nonNeg = e.Sense && k >= 0
			case token.GTR:
				nonNeg = e.Sense && k >= -1
			case token.LSS:
				nonNeg = !e.Sense && k >= 0
			case token.LEQ:
				nonNeg = !e.Sense && k >= -1
			case token.EQL:
				nonNeg = (!e.Sense && k == -1) || (e.Sense && k >= 0)
			}
			if nonNeg {
				in |= 1
			}
			return in
		}
		sol := g.Solve(p)
		if sol.In[at.ID]&1 == 0 {
			return false
		}
	}
	return true
}

var supportedSchemes = []string{"tcp", "tcp4", "tcp6", "udp", "udp4", "udp6", "unix"}

func runC16_2(c *core.Ctx) {
	f := getFn(c, "", "parseProtoAddr")
	open := getFn(c, "", "listener.open")
	invalid, unsupported := sentinel(c, "ErrInvalidNetworkAddress"), sentinel(c, "ErrUnsupportedProtocol")
	if f == nil || open == nil || !c.Need("ErrInvalidNetworkAddress", invalid) || !c.Need("ErrUnsupportedProtocol", unsupported) {
		return
	}
	// the switch on u.Scheme
	var sw *ast.SwitchStmt
	ast.Inspect(f.Decl.Body, func(n ast.Node) bool {
		if s, ok := n.(*ast.SwitchStmt); ok && s.Tag != nil {
			if sel, ok := ast.Unparen(s.Tag).(*ast.SelectorExpr); ok && sel.Sel.Name == "Scheme" {
				sw = s
			}
		}
		return true
	})
	if sw == nil {
		c.Violate(f.Name, "switch on the scheme", f.Decl.Pos(), "parseProtoAddr no longer switches on u.Scheme")
		return
	}
	errOf := func(r *ast.ReturnStmt) types.Object {
		if len(r.Results) != 3 {
			return nil
		}
		if id := sentinelIdent(r.Results[2]); id != nil {
			return f.Info.Uses[id]
		}
		return nil
	}
	var success []string
	for _, cl := range sw.Body.List {
		cc := cl.(*ast.CaseClause)
		var lits []string
		for _, e := range cc.List {
			if cv := flow.ConstOf(f.Info, e); cv != nil && cv.Kind() == constant.String {
				lits = append(lits, constant.StringVal(cv))
			}
		}
		var rets []*ast.ReturnStmt
		for _, st := range cc.Body {
			ast.Inspect(st, func(n ast.Node) bool {
				if r, ok := n.(*ast.ReturnStmt); ok {
					rets = append(rets, r)
				}
				return true
			})
		}
		switch {
		case cc.List == nil:
			okk := len(rets) > 0
			for _, r := range rets {
				if errOf(r) != unsupported {
					okk = false
				}
			}
			c.Check(okk, f.Name, "default ↦ ErrUnsupportedProtocol", cc.Pos(), "unknown schemes are rejected with the documented error", "the default case no longer returns ErrUnsupportedProtocol")
		case len(lits) == 1 && lits[0] == "":
			okk := len(rets) > 0
			for _, r := range rets {
				if errOf(r) != invalid {
					okk = false
				}
			}
			c.Check(okk, f.Name, "\"\" ↦ ErrInvalidNetworkAddress", cc.Pos(), "a missing scheme is rejected with the documented error", "the empty-scheme case no longer returns ErrInvalidNetworkAddress")
		default:
			// success case: last return hands back u.Scheme; earlier returns are ErrInvalidNetworkAddress (empty endpoint)
			// every return of the case is either the success (u.Scheme as written, nil error) or the rejection of an
			// empty endpoint; which of the two comes first in the source does not matter (C16.6 decides the edges)
			nOK, nRej := 0, 0
			okk := true
			for _, r := range rets {
				sel, isSel := ast.Unparen(r.Results[0]).(*ast.SelectorExpr)
				switch {
				case len(r.Results) == 3 && isSel && sel.Sel.Name == "Scheme" && flow.IsNil(f.Info, r.Results[2]):
					nOK++
				case errOf(r) == invalid:
					nRej++
				default:
					okk = false
				}
			}
			okk = okk && nOK >= 1 && nRej >= 1
			c.Check(okk, f.Name, "case "+strings.Join(lits, ",")+": scheme returned as written, empty endpoint ↦ ErrInvalidNetworkAddress", cc.Pos(), "success returns u.Scheme; the empty-endpoint test precedes it",
				"a supported-scheme case no longer returns u.Scheme unchanged on success, or no longer rejects an empty endpoint with ErrInvalidNetworkAddress")
			success = append(success, lits...)
		}
	}
	sort.Strings(success)
	want := append([]string(nil), supportedSchemes...)
	sort.Strings(want)
	c.Check(strings.Join(success, ",") == strings.Join(want, ","), f.Name, "supported scheme set", sw.Pos(), "exactly "+strings.Join(want, ","),
		"the set of accepted schemes is {"+strings.Join(success, ",")+"} instead of the seven documented ones")
	// listener.open
	var got []string
	ast.Inspect(open.Decl.Body, func(n ast.Node) bool {
		if cc, ok := n.(*ast.CaseClause); ok {
			for _, e := range cc.List {
				if cv := flow.ConstOf(open.Info, e); cv != nil && cv.Kind() == constant.String {
					got = append(got, constant.StringVal(cv))
				}
			}
		}
		return true
	})
	sort.Strings(got)
	c.Check(strings.Join(got, ",") == strings.Join(want, ","), open.Name, "listener accepts the same schemes", open.Decl.Pos(), "parser and listener agree",
		"listener.open accepts {"+strings.Join(got, ",")+"}, which differs from what parseProtoAddr lets through: a parsed address could fail with ErrUnsupportedProtocol later (or an unparsed one be opened)")
}

func isPow2(k int64) bool { return k > 0 && k&(k-1) == 0 }

func runC16_3(c *core.Ctx) {
	ceil := c.P.Func("pkg/math", "CeilToPowerOfTwo")
	if !c.Need("CeilToPowerOfTwo", ceil) {
		return
	}
	fields := map[string]*types.Var{}
	for _, n := range []string{"ReadBufferCap", "WriteBufferCap", "EdgeTriggeredIOChunk", "EdgeTriggeredIO"} {
		if fv := c.P.Field("", "Options", n); c.Need("Options."+n, fv) {
			fields[n] = fv
		}
	}
	summary := map[string][]string{}
	for _, name := range []string{"createListeners", "NewClient"} {
		f := getFn(c, "", name)
		if f == nil {
			continue
		}
		g := f.Graph()
		// facts on edges: (var or option) <= K true  -> bound K
		type fact struct {
			obj   types.Object
			bound int64
		}
		for _, fname := range []string{"ReadBufferCap", "WriteBufferCap", "EdgeTriggeredIOChunk"} {
			fld := fields[fname]
			if fld == nil {
				continue
			}
			// aliases: local := options.F
			alias := map[types.Object]bool{}
			ast.Inspect(f.Decl.Body, func(n ast.Node) bool {
				if as, ok := n.(*ast.AssignStmt); ok && len(as.Lhs) == 1 && len(as.Rhs) == 1 && flow.FieldOf(f.Info, as.Rhs[0]) == fld {
					if o := flow.ObjOf(f.Info, as.Lhs[0]); o != nil {
						alias[o] = true
					}
				}
				return true
			})
			isOld := func(e ast.Expr) bool {
				return flow.FieldOf(f.Info, e) == fld || (flow.ObjOf(f.Info, e) != nil && alias[flow.ObjOf(f.Info, e)])
			}
			// upper bound established on the path: x <= K (true edge)
			const noBound = int64(-1 << 62)
			type st struct{ bound int64 }
			bounds := map[*flow.Block]int64{}
			p := &flow.Problem{Must: true}
			_ = p
			k := 0
			for _, b := range g.Blocks {
				for _, nd := range b.Nodes {
					as, ok := nd.(*ast.AssignStmt)
					if !ok {
						continue
					}
					for i, l := range as.Lhs {
						if flow.FieldOf(f.Info, l) != fld || len(as.Rhs) != len(as.Lhs) {
							continue
						}
						k++
						rhs := ast.Unparen(as.Rhs[i])
						construct := fname + " store #" + itoa(k) + " = " + exprStr(rhs)
						if call, ok := rhs.(*ast.CallExpr); ok && flow.IsCall(f.Info, call, ceil) && len(call.Args) == 1 {
							c.Check(isOld(call.Args[0]), f.Name, construct, as.Pos(), "rounded up from the requested value", "CeilToPowerOfTwo is applied to something other than the option's own requested value")
							summary[name] = append(summary[name], fname+":ceil")
							continue
						}
						// a helper of the module that normalises its single argument: fld = helper(request)
						if call, ok := rhs.(*ast.CallExpr); ok && len(call.Args) == 1 {
							if cf := flow.CalleeFunc(f.Info, call); cf != nil && c.P.InModule(cf) {
								if hf := fnOf(c, cf); hf != nil && hf.Decl.Body != nil {
									if okH, items, why := normalisingHelper(c, hf, ceil, fname == "EdgeTriggeredIOChunk"); okH {
										c.Check(isOld(call.Args[0]), f.Name, construct, as.Pos(), "normalised from the requested value by "+cf.Name(),
											cf.Name()+" normalises its argument correctly, but it is applied to "+exprStr(call.Args[0])+", which is not the requested value of "+fname+": the capacity that is set has nothing to do with the one that was asked for (it can be smaller than the request, and an unset option loses its default)")
										for _, it := range items {
											summary[name] = append(summary[name], fname+":"+it)
										}
										continue
									} else if why != "" {
										c.Violate(f.Name, construct, as.Pos(), fname+" is set through "+cf.Name()+", which does not normalise its argument: "+why)
										continue
									}
								}
							}
						}
						cv := flow.ConstOf(f.Info, rhs)
						if cv == nil {
							// a package-level variable of the module with a constant initialiser that the module never reassigns
							if gv, ok := flow.ObjOf(f.Info, rhs).(*types.Var); ok && gv.Pkg() != nil && gv.Parent() == gv.Pkg().Scope() && c.P.InModule(gv) {
								if iv, assigned := globalInit(c, gv); iv != nil && !assigned {
									cv = iv
								}
							}
						}
						if cv == nil {
							c.Violate(f.Name, construct, as.Pos(), fname+" is set to a value that is neither CeilToPowerOfTwo(request) nor a constant: it need not be a power of two (the ring buffers rely on it)")
							continue
						}
						kv, _ := constant.Int64Val(cv)
						// the bound of the enclosing case: the dominating `x <= K` true edge
						bound := enclosingUpperBound(f, g, b, isOld)
						_ = bounds
						okk := isPow2(kv) && (fname == "EdgeTriggeredIOChunk" || kv >= 1024) && (bound == noBound || kv >= bound)
						why := ""
						switch {
						case !isPow2(kv):
							why = "the constant " + itoa(int(kv)) + " is not a power of two"
						case fname != "EdgeTriggeredIOChunk" && kv < 1024:
							why = "the constant is below the documented minimum of 1 KiB"
						case bound != noBound && kv < bound:
							why = "the constant " + itoa(int(kv)) + " is smaller than requests of up to " + itoa(int(bound)) + " that reach this case: the capacity would be below the request"
						}
						c.Check(okk, f.Name, construct, as.Pos(), "power-of-two constant not below the requests of its case", why)
						summary[name] = append(summary[name], fname+":const"+itoa(int(kv)))
					}
				}
			}
		}
		// EdgeTriggeredIOChunk > 0 implies EdgeTriggeredIO = true
		et := fields["EdgeTriggeredIO"]
		chunk := fields["EdgeTriggeredIOChunk"]
		if et != nil && chunk != nil {
			const fPos = 1
			p := &flow.Problem{Must: true}
			p.Edge = func(e *flow.Edge, in uint64) uint64 {
				if e.Cond != nil && e.Tag == nil {
					if x, y, op, ok := flow.Cmp(e.Cond); ok && flow.FieldOf(f.Info, x) == chunk && op == token.GTR && e.Sense {
						if cv := flow.ConstOf(f.Info, y); cv != nil && constant.Sign(cv) == 0 {
							in |= fPos
						}
					}
				}
				return in
			}
			sol := g.Solve(p)
			found := false
			sol.Walk(func(b *flow.Block, i int, n ast.Node, before uint64) {
				if as, ok := n.(*ast.AssignStmt); ok && before&fPos != 0 {
					for k, l := range as.Lhs {
						if flow.FieldOf(f.Info, l) == et && len(as.Rhs) == len(as.Lhs) {
							if cv := flow.ConstOf(f.Info, as.Rhs[k]); cv != nil && constant.BoolVal(cv) {
								found = true
							}
						}
					}
				}
			})
			c.Check(found, f.Name, "chunk > 0 enables edge-triggered I/O", f.Decl.Pos(), "a chunk size implies ET mode", "a positive EdgeTriggeredIOChunk no longer switches EdgeTriggeredIO on")
		}
	}
	a, b := append([]string(nil), summary["createListeners"]...), append([]string(nil), summary["NewClient"]...)
	sort.Strings(a)
	sort.Strings(b)
	c.Check(strings.Join(a, " ") == strings.Join(b, " ") && len(a) > 0, "gnet", "createListeners and NewClient normalise alike", token.NoPos, "sibling blocks agree: "+strings.Join(a, " "),
		"server and client normalise the buffer options differently: ["+strings.Join(a, " ")+"] vs ["+strings.Join(b, " ")+"]")
}

// normalisingHelper: every return of hf is CeilToPowerOfTwo(param) or a power-of-two constant that is not
// below the requests reaching its case (and not below 1 KiB for buffer capacities).
func normalisingHelper(c *core.Ctx, hf *fn, ceil *types.Func, isChunk bool) (bool, []string, string) {
	sig := hf.Obj.Type().(*types.Signature)
	if sig.Params().Len() != 1 || sig.Results().Len() != 1 {
		return false, nil, ""
	}
	param := sig.Params().At(0)
	isOld := func(e ast.Expr) bool { return flow.ObjOf(hf.Info, e) == types.Object(param) }
	const noBound = int64(-1 << 62)
	g := hf.Graph()
	var items []string
	why := ""
	n := 0
	for _, b := range g.Blocks {
		if b.Return == nil || len(b.Return.Results) != 1 {
			continue
		}
		n++
		res := ast.Unparen(b.Return.Results[0])
		if call, ok := res.(*ast.CallExpr); ok && flow.IsCall(hf.Info, call, ceil) && len(call.Args) == 1 {
			if !isOld(call.Args[0]) {
				why = "CeilToPowerOfTwo is applied to something other than the helper's argument"
			}
			items = append(items, "ceil")
			continue
		}
		cv := flow.ConstOf(hf.Info, res)
		if cv == nil {
			if gv, ok := flow.ObjOf(hf.Info, res).(*types.Var); ok && gv.Pkg() != nil && gv.Parent() == gv.Pkg().Scope() && c.P.InModule(gv) {
				if iv, assigned := globalInit(c, gv); iv != nil && !assigned {
					cv = iv
				}
			}
		}
		if cv == nil {
			return false, nil, "it returns " + exprStr(res) + ", which is neither CeilToPowerOfTwo(argument) nor a constant"
		}
		kv, _ := constant.Int64Val(cv)
		bound := enclosingUpperBound(hf, g, b, isOld)
		switch {
		case !isPow2(kv):
			why = "the constant " + itoa(int(kv)) + " is not a power of two"
		case !isChunk && kv < 1024:
			why = "the constant is below the documented minimum of 1 KiB"
		case bound != noBound && kv < bound:
			why = "the constant " + itoa(int(kv)) + " is smaller than requests of up to " + itoa(int(bound)) + " that reach this case"
		}
		items = append(items, "const"+itoa(int(kv)))
	}
	if n == 0 {
		return false, nil, ""
	}
	if why != "" {
		return false, nil, why
	}
	return true, items, ""
}

// enclosingUpperBound finds, for block b, the tightest bound K such that every path to b passed the true edge of `old <= K`
// (tagless switch cases / if conditions); noBound if none.
func enclosingUpperBound(f *fn, g *flow.Graph, target *flow.Block, isOld func(ast.Expr) bool) int64 {
	const noBound = int64(-1 << 62)
	// collect candidate bounds, then test each as a must-fact
	var cands []int64
	for _, b := range g.Blocks {
		for _, e := range b.Succs {
			if e.Cond != nil && e.Tag == nil && e.Sense {
				if x, y, op, ok := flow.Cmp(e.Cond); ok && op == token.LEQ && isOld(x) {
					if cv := flow.ConstOf(f.Info, y); cv != nil {
						k, _ := constant.Int64Val(cv)
						cands = append(cands, k)
					}
				}
			}
		}
	}
	best := noBound
	for _, k := range cands {
		kk := k
		p := &flow.Problem{Must: true}
		p.Edge = func(e *flow.Edge, in uint64) uint64 {
			if e.Cond != nil && e.Tag == nil && e.Sense {
				if x, y, op, ok := flow.Cmp(e.Cond); ok && op == token.LEQ && isOld(x) {
					if cv := flow.ConstOf(f.Info, y); cv != nil {
						if v, _ := constant.Int64Val(cv); v == kk {
							in |= 1
						}
					}
				}
			}
			return in
		}
		sol := g.Solve(p)
		if sol.Seen[target.ID] && sol.In[target.ID]&1 != 0 {
			if best == noBound || kk > best {
				best = kk
			}
		}
	}
	return best
}

func runC16_4(c *core.Ctx) {
	f := getFn(c, "", "determineEventLoops")
	maxC, _ := c.P.Object("internal/gfd", "EventLoopIndexMax").(*types.Const)
	numF := c.P.Field("", "Options", "NumEventLoop")
	if f == nil || !c.Need("EventLoopIndexMax", maxC) || !c.Need("Options.NumEventLoop", numF) {
		return
	}
	// the returned variable
	var res types.Object
	for _, b := range f.Graph().Exits() {
		if len(b.Return.Results) == 1 {
			if o, ok := flow.ObjOf(f.Info, b.Return.Results[0]).(*types.Var); ok {
				res = o
			}
		}
	}
	if res == nil {
		c.Undecided(f.Name, "result variable", f.Decl.Pos(), "determineEventLoops does not return a variable; idiom not recognised")
		return
	}
	const (
		fClamped = 1 << iota
		fPosNum
	)
	p := &flow.Problem{Must: true}
	p.Node = func(b *flow.Block, i int, n ast.Node, in uint64) uint64 {
		if as, ok := n.(*ast.AssignStmt); ok {
			for k, l := range as.Lhs {
				if flow.ObjOf(f.Info, l) == res && len(as.Rhs) == len(as.Lhs) {
					in &^= fClamped
					if flow.ObjOf(f.Info, as.Rhs[k]) == types.Object(maxC) {
						in |= fClamped
					}
				}
			}
		}
		return in
	}
	p.Edge = func(e *flow.Edge, in uint64) uint64 {
		if e.Cond == nil || e.Tag != nil {
			return in
		}
		x, y, op, ok := flow.Cmp(e.Cond)
		if !ok {
			return in
		}
		if flow.ObjOf(f.Info, x) == res && flow.ObjOf(f.Info, y) == types.Object(maxC) && ((op == token.GTR && !e.Sense) || (op == token.LEQ && e.Sense)) {
			in |= fClamped
		}
		if flow.FieldOf(f.Info, x) == numF && op == token.GTR && e.Sense {
			if cv := flow.ConstOf(f.Info, y); cv != nil && constant.Sign(cv) >= 0 {
				in |= fPosNum
			}
		}
		return in
	}
	sol := f.Graph().Solve(p)
	sol.AtExit(func(b *flow.Block, facts uint64) {
		// returning the bound itself is as good as assigning it first
		direct := len(b.Return.Results) == 1 && flow.ObjOf(f.Info, b.Return.Results[0]) == types.Object(maxC)
		c.Check(facts&fClamped != 0 || direct, f.Name, "result <= EventLoopIndexMax", b.Return.Pos(), "clamped to the capacity of the GFD loop-index field",
			"determineEventLoops can return more than gfd.EventLoopIndexMax loops: loop indexes no longer fit into the connection identifier")
	})
	sol.Walk(func(b *flow.Block, i int, n ast.Node, before uint64) {
		if as, ok := n.(*ast.AssignStmt); ok {
			for k, l := range as.Lhs {
				if flow.ObjOf(f.Info, l) != res || len(as.Rhs) != len(as.Lhs) {
					continue
				}
				rhs := as.Rhs[k]
				switch {
				case flow.FieldOf(f.Info, rhs) == numF:
					c.Check(before&fPosNum != 0, f.Name, "NumEventLoop used only if > 0", as.Pos(), "a non-positive option is ignored", "NumEventLoop is taken without the > 0 test: zero or negative loop counts reach the engine")
				case flow.ConstOf(f.Info, rhs) != nil:
					kv, _ := constant.Int64Val(flow.ConstOf(f.Info, rhs))
					c.Check(kv >= 1, f.Name, "default loop count >= 1", as.Pos(), "at least one loop", "the default number of event loops is below 1")
				}
			}
		}
	})
}

// globalInit returns the constant initialiser of a package-level variable and whether the module assigns it anywhere else.
func globalInit(c *core.Ctx, gv *types.Var) (constant.Value, bool) {
	var init constant.Value
	assigned := false
	for _, pk := range c.P.Pkgs {
		for _, file := range pk.Syntax {
			ast.Inspect(file, func(n ast.Node) bool {
				switch y := n.(type) {
				case *ast.ValueSpec:
					for i, nm := range y.Names {
						if pk.TypesInfo.Defs[nm] == types.Object(gv) && i < len(y.Values) {
							if tv, ok := pk.TypesInfo.Types[y.Values[i]]; ok {
								init = tv.Value
							}
						}
					}
				case *ast.AssignStmt:
					for _, l := range y.Lhs {
						if flow.ObjOf(pk.TypesInfo, l) == types.Object(gv) {
							assigned = true
						}
					}
				case *ast.UnaryExpr:
					if y.Op == token.AND && flow.ObjOf(pk.TypesInfo, y.X) == types.Object(gv) {
						assigned = true
					}
				}
				return true
			})
		}
	}
	return init, assigned
}
