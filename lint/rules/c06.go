package rules

import (
	"go/ast"
	"go/constant"
	"go/token"
	"go/types"
	"strings"

	"gnetlint/core"
	"gnetlint/flow"
)

func init() {
	describe(&PropInfo{ID: "C06", QuickConfigs: []core.Config{cfgPollOpt},
		Explanation: "Decides the control-flow skeleton of shutdown: (1) the Action returned by every EventHandler callback is examined and a Shutdown action leads to the shutdown sentinel " +
			"(or, for OnBoot, to an immediate return; for OnTick, to an exit task); (2) every loop function runs closeConns and then engine.shutdown on each exit after Polling (rotate: engine.shutdown); " +
			"(3) engine.stop and Client.Stop perform wait-for-signal, OnShutdown, exit tasks to every loop, Wait(), closeEventLoops, inShutdown=true in that order on every path, and inShutdown is stored nowhere else; " +
			"(4) run() handles OnBoot before starting anything, registers the deferred stop only after a successful start and tears down on start failure; (5) OnShutdown has exactly two call sites, each " +
			"executed exactly once per path; (6) exit tasks use HighPriority (shared with C03.11) and goroutines are joined by the errgroup (shared with C05.6). Nothing about time bounds is decided.",
		Assumptions: []string{"errgroup.Wait returns after every goroutine started with Go has returned", "a loop blocked in the poller is woken by a Trigger (C03)"}})

	register(&core.Rule{ID: "C06.1", Prop: "C06", MinSites: 7,
		Desc: "every Action returned by an EventHandler callback is examined, and the Shutdown case leads to ErrEngineShutdown (loop side), to `return nil` before anything is started (OnBoot in run) or to an exit task (OnTick)",
		Run:  runC06_1})
	register(&core.Rule{ID: "C06.2", Prop: "C06", MinSites: 3,
		Desc: "run/orbit: every return after Polling passes closeConns() and then engine.shutdown(); rotate: engine.shutdown()",
		Run:  func(c *core.Ctx) { runAfterPolling(c, "C06.2") }})
	register(&core.Rule{ID: "C06.3", Prop: "C06", MinSites: 10,
		Desc: "stop sequence: signal ≺ OnShutdown ≺ exit tasks to all loops ≺ concurrency.Wait() ≺ closeEventLoops() ≺ inShutdown.Store(true) on every path of engine.stop and Client.Stop; inShutdown is stored only there",
		Run:  runC06_3})
	register(&core.Rule{ID: "C06.4", Prop: "C06", MinSites: 3,
		Desc: "run(): OnBoot is handled before eng.start and its Shutdown case returns nil; `defer eng.stop` is registered only after start succeeded; the start-failure path calls closeEventLoops",
		Run:  runC06_4})
	register(&core.Rule{ID: "C06.6", Prop: "C06", MinSites: 3,
		Desc: "OnShutdown has exactly two call sites (engine.stop, Client.Stop), each executed exactly once on every path and not inside a loop",
		Run:  runC06_6})
}

func runC06_1(c *core.Ctx) {
	v := vocabOf(c)
	if v == nil {
		return
	}
	shutdownAction, _ := c.P.Object("", "Shutdown").(*types.Const)
	shut := sentinel(c, "ErrEngineShutdown")
	handleAction := c.P.Func("", "eventloop.handleAction")
	trig := c.P.Func("pkg/netpoll", "Poller.Trigger")
	if !c.Need("Shutdown", shutdownAction) || !c.Need("ErrEngineShutdown", shut) || !c.Need("handleAction", handleAction) || !c.Need("Trigger", trig) {
		return
	}
	isHandlerCall := func(f *fn, call *ast.CallExpr) string {
		cf := flow.CalleeFunc(f.Info, call)
		if cf == nil {
			return ""
		}
		for _, m := range []string{"OnBoot", "OnOpen", "OnTraffic", "OnClose", "OnTick"} {
			if flow.SameFunc(cf, v.handler[m]) {
				return m
			}
		}
		return ""
	}
	for _, f := range v.funcs {
		bodies := []*ast.BlockStmt{f.Decl.Body}
		for _, fl := range allLits(f.Decl.Body) {
			bodies = append(bodies, fl.Body)
		}
		for _, body := range bodies {
			// find handler calls directly in this body
			type site struct {
				call   *ast.CallExpr
				m      string
				action types.Object
				stmt   ast.Node
			}
			var sites []site
			ast.Inspect(body, func(n ast.Node) bool {
				if fl, ok := n.(*ast.FuncLit); ok && fl.Body != body {
					return false
				}
				switch x := n.(type) {
				case *ast.AssignStmt:
					if len(x.Rhs) == 1 {
						if call, ok := ast.Unparen(x.Rhs[0]).(*ast.CallExpr); ok {
							if m := isHandlerCall(f, call); m != "" {
								// the Action is the last result
								lhs := x.Lhs[len(x.Lhs)-1]
								sites = append(sites, site{call, m, flow.ObjOf(f.Info, lhs), x})
							}
						}
					}
				case *ast.ExprStmt:
					if call, ok := ast.Unparen(x.X).(*ast.CallExpr); ok {
						if m := isHandlerCall(f, call); m != "" {
							sites = append(sites, site{call, m, nil, x})
						}
					}
				case *ast.SwitchStmt:
					if call, ok := ast.Unparen(x.Tag).(*ast.CallExpr); ok && x.Tag != nil {
						if m := isHandlerCall(f, call); m != "" {
							sites = append(sites, site{call, m, nil, x})
						}
					}
				}
				return true
			})
			for _, s := range sites {
				construct := "Action of " + s.m
				if f.Name == "gnet.(*Client).Start" && s.m == "OnBoot" {
					c.Ok(f.Name, construct, s.call.Pos(), "exception: a client has no Run to return from; OnBoot's action is ignored (outside the statement, which is about Run)")
					continue
				}
				g := flow.New(c.P.Fset, f.Info, body)
				// facts: on the Shutdown edge
				const fShut = 1
				isTagOfSite := func(tag ast.Expr) bool {
					if s.action != nil && flow.ObjOf(f.Info, tag) == s.action {
						return true
					}
					if call, ok := ast.Unparen(tag).(*ast.CallExpr); ok && call == s.call {
						return true
					}
					return false
				}
				examined := false
				p := &flow.Problem{Must: true}
				p.Edge = func(e *flow.Edge, in uint64) uint64 {
					if e.Cond == nil {
						return in
					}
					if e.Tag != nil {
						if isTagOfSite(e.Tag) && flow.ObjOf(f.Info, e.Cond) == types.Object(shutdownAction) {
							examined = true
							if e.Sense {
								in |= fShut
							}
						}
						return in
					}
					if x, y, op, ok := flow.Cmp(e.Cond); ok && op == token.EQL && s.action != nil {
						if (flow.ObjOf(f.Info, x) == s.action && flow.ObjOf(f.Info, y) == types.Object(shutdownAction)) ||
							(flow.ObjOf(f.Info, y) == s.action && flow.ObjOf(f.Info, x) == types.Object(shutdownAction)) {
							examined = true
							if e.Sense {
								in |= fShut
							}
						}
					}
					return in
				}
				sol := g.Solve(p)
				// delegation to handleAction
				delegated := false
				for _, call := range callsIn(body, false) {
					if flow.IsCall(f.Info, call, handleAction) && len(call.Args) == 2 && s.action != nil && flow.ObjOf(f.Info, call.Args[1]) == s.action {
						delegated = true
					}
				}
				if !examined && !delegated {
					c.Violate(f.Name, construct, s.call.Pos(), "the Action returned by "+s.m+" is never compared with Shutdown nor passed to handleAction: a Shutdown request from this callback is ignored")
					continue
				}
				if delegated {
					c.Ok(f.Name, construct, s.call.Pos(), "delegated to handleAction")
					continue
				}
				// what happens on the Shutdown edge
				okk := true
				why := ""
				sawReturn := false
				sol.AtExit(func(b *flow.Block, facts uint64) {
					if facts&fShut == 0 {
						return
					}
					sawReturn = true
					r := b.Return
					switch {
					case f.Name == "gnet.run" && s.m == "OnBoot":
						if !(len(r.Results) == 1 && flow.IsNil(f.Info, r.Results[0])) {
							okk, why = false, "OnBoot's Shutdown does not make run return nil immediately"
						}
					case s.m == "OnTick":
						// handled below (exit task)
					default:
						good := false
						for _, res := range r.Results {
							if id := sentinelIdent(res); id != nil && f.Info.Uses[id] == shut {
								good = true
							}
						}
						if !good {
							okk, why = false, "the Shutdown case does not return ErrEngineShutdown: the loop keeps running after the handler asked for shutdown"
						}
					}
				})
				if s.m == "OnTick" {
					// an exit task must be triggered on the Shutdown edge
					found := false
					sol.Walk(func(b *flow.Block, i int, n ast.Node, before uint64) {
						if before&fShut == 0 {
							return
						}
						for _, call := range flow.Calls(n) {
							if flow.IsCall(f.Info, call, trig) && len(call.Args) == 3 {
								if fl, ok := seeThrough(f, call.Args[1]).(*ast.FuncLit); ok && litReturnsOnly(f, fl, shut) {
									found = true
								}
							}
						}
					})
					if !found {
						okk, why = false, "OnTick's Shutdown does not submit an exit task returning ErrEngineShutdown"
					}
					sawReturn = true
				}
				if !sawReturn && okk {
					// the Shutdown edge never reaches a return distinctly (e.g. falls through): accept only for OnBoot/ OnTick
					okk, why = false, "no return is dominated by the Shutdown case"
				}
				c.Check(okk, f.Name, construct, s.call.Pos(), "Shutdown is honoured", why)
			}
		}
	}
	// handleAction itself
	if hf := fnOf(c, handleAction); hf != nil {
		const fShut = 1
		p := &flow.Problem{Must: true}
		p.Edge = func(e *flow.Edge, in uint64) uint64 {
			if l, r, eq, ok := flow.Equality(e); ok && eq {
				if flow.ObjOf(hf.Info, r) == types.Object(shutdownAction) || flow.ObjOf(hf.Info, l) == types.Object(shutdownAction) {
					in |= fShut
				}
			}
			return in
		}
		sol := hf.Graph().Solve(p)
		found := false
		sol.AtExit(func(b *flow.Block, facts uint64) {
			if facts&fShut == 0 {
				return
			}
			for _, res := range b.Return.Results {
				if id := sentinelIdent(res); id != nil && hf.Info.Uses[id] == shut {
					found = true
				}
			}
		})
		c.Check(found, hf.Name, "Shutdown ↦ ErrEngineShutdown", hf.Decl.Pos(), "handleAction maps Shutdown to the sentinel", "handleAction no longer maps the Shutdown action to ErrEngineShutdown")
	}
}

// litReturnsOnly: the literal's body is `return <obj>`.
func litReturnsOnly(f *fn, fl *ast.FuncLit, obj types.Object) bool {
	if len(fl.Body.List) != 1 {
		return false
	}
	r, ok := fl.Body.List[0].(*ast.ReturnStmt)
	if !ok || len(r.Results) != 1 {
		return false
	}
	id := sentinelIdent(r.Results[0])
	return id != nil && f.Info.Uses[id] == obj
}

func runC06_3(c *core.Ctx) {
	v := vocabOf(c)
	if v == nil {
		return
	}
	shut := sentinel(c, "ErrEngineShutdown")
	trig := c.P.Func("pkg/netpoll", "Poller.Trigger")
	cel := c.P.Func("", "engine.closeEventLoops")
	inShutdown := c.P.Field("", "engine", "inShutdown")
	engShutdown := c.P.Func("", "engine.shutdown")
	if !c.Need("ErrEngineShutdown", shut) || !c.Need("Trigger", trig) || !c.Need("closeEventLoops", cel) || !c.Need("inShutdown", inShutdown) || !c.Need("engine.shutdown", engShutdown) {
		return
	}
	const (
		fSignal = 1 << iota
		fOnShutdown
		fExitTasks
		fWaited
		fClosed
		fStored
		fIngress
		fAlreadyDown
	)
	isShutdownFn := c.P.Func("", "engine.isShutdown")
	ingress := c.P.Field("", "engine", "ingress")
	if !c.Need("engine.ingress", ingress) {
		return
	}
	for _, name := range []string{"engine.stop", "Client.Stop"} {
		f := getFn(c, "", name)
		if f == nil {
			continue
		}
		isExitIterate := func(call *ast.CallExpr) bool {
			cf := flow.CalleeFunc(f.Info, call)
			if cf == nil || nameOf(cf) != "iterate" || len(call.Args) != 1 {
				return false
			}
			fl, ok := ast.Unparen(call.Args[0]).(*ast.FuncLit)
			if !ok {
				return false
			}
			for _, inner := range callsIn(fl.Body, false) {
				if flow.IsCall(f.Info, inner, trig) && len(inner.Args) == 3 {
					if tl, ok := seeThrough(f, inner.Args[1]).(*ast.FuncLit); ok && litReturnsOnly(f, tl, shut) {
						return true
					}
				}
			}
			return false
		}
		type ev struct {
			bit  uint64
			need uint64
			name string
		}
		classify := func(n ast.Node) []struct {
			e   ev
			pos token.Pos
		} {
			var out []struct {
				e   ev
				pos token.Pos
			}
			add := func(e ev, pos token.Pos) {
				out = append(out, struct {
					e   ev
					pos token.Pos
				}{e, pos})
			}
			flow.Events(n, func(x ast.Node) {
				switch y := x.(type) {
				case *ast.UnaryExpr:
					if y.Op == token.ARROW {
						if call, ok := ast.Unparen(y.X).(*ast.CallExpr); ok {
							if cf := flow.CalleeFunc(f.Info, call); cf != nil && nameOf(cf) == "Done" {
								add(ev{fSignal, 0, "wait for the shutdown signal"}, y.Pos())
							}
						}
					}
				case *ast.CallExpr:
					cf := flow.CalleeFunc(f.Info, y)
					switch {
					case flow.IsCall(f.Info, y, engShutdown) && name == "Client.Stop":
						add(ev{fSignal, 0, "request shutdown"}, y.Pos())
					case cf != nil && flow.SameFunc(cf, v.handler["OnShutdown"]):
						add(ev{fOnShutdown, fSignal, "OnShutdown"}, y.Pos())
					case isExitIterate(y):
						add(ev{fExitTasks, fSignal | fOnShutdown, "exit tasks to all loops"}, y.Pos())
					case flow.IsCall(f.Info, y, trig) && len(y.Args) == 3 && (strings.Contains(flow.PathOf(f.Info, flow.Recv(y)).Sel, ".ingress.poller") || func() bool {
						// the main reactor through a local: mainLoop := eng.ingress … mainLoop.poller.Trigger(…)
						ps, ok := ast.Unparen(flow.Recv(y)).(*ast.SelectorExpr)
						if !ok || ps.Sel.Name != "poller" {
							return false
						}
						is, ok := seeThrough(f, ps.X).(*ast.SelectorExpr)
						return ok && nameOf(flow.FieldOf(f.Info, is)) == "ingress"
					}()):
						if tl, ok := seeThrough(f, y.Args[1]).(*ast.FuncLit); ok && litReturnsOnly(f, tl, shut) {
							add(ev{fIngress, fSignal | fOnShutdown, "exit task to the main reactor"}, y.Pos())
						}
					case cf != nil && nameOf(cf) == "Wait" && cf.Pkg() != nil && strings.HasSuffix(cf.Pkg().Path(), "errgroup"):
						need := uint64(fSignal | fOnShutdown | fExitTasks)
						if name == "engine.stop" {
							need |= fIngress // the main reactor (if any) must have been told to exit, or Wait never returns
						}
						add(ev{fWaited, need, "concurrency.Wait()"}, y.Pos())
					case flow.IsCall(f.Info, y, cel):
						add(ev{fClosed, fSignal | fOnShutdown | fExitTasks | fWaited, "closeEventLoops()"}, y.Pos())
					case cf != nil && nameOf(cf) == "Store" && flow.Recv(y) != nil && flow.FieldOf(f.Info, flow.Recv(y)) == inShutdown:
						add(ev{fStored, fSignal | fOnShutdown | fExitTasks | fWaited | fClosed, "inShutdown.Store(true)"}, y.Pos())
					}
				}
			})
			return out
		}
		p := &flow.Problem{Must: true}
		p.Node = func(b *flow.Block, i int, n ast.Node, in uint64) uint64 {
			for _, e := range classify(n) {
				in |= e.e.bit
			}
			return in
		}
		p.Edge = func(e *flow.Edge, in uint64) uint64 {
			if e.Cond != nil && e.Tag == nil {
				if x, y, op, ok := flow.Cmp(e.Cond); ok && flow.IsNil(f.Info, y) && (flow.FieldOf(f.Info, x) == ingress || flow.FieldOf(f.Info, seeThrough(f, x)) == ingress) && (op == token.EQL) == e.Sense {
					in |= fIngress // no main reactor (reuse-port mode)
				}
				if call, ok := ast.Unparen(e.Cond).(*ast.CallExpr); ok && isShutdownFn != nil && flow.IsCall(f.Info, call, isShutdownFn) && e.Sense {
					in |= fAlreadyDown // a repeated stop: nothing to do
				}
			}
			return in
		}
		sol := f.Graph().Solve(p)
		sol.Walk(func(b *flow.Block, i int, n ast.Node, before uint64) {
			cur := before
			for _, e := range classify(n) {
				c.Check(cur&e.e.need == e.e.need, f.Name, "order: "+e.e.name, e.pos, "all earlier shutdown steps precede it on every path",
					"shutdown step '"+e.e.name+"' can run before an earlier step of the sequence signal ≺ OnShutdown ≺ exit tasks ≺ Wait ≺ closeEventLoops ≺ inShutdown: e.g. callbacks could still run after OnShutdown/Run returned, or pollers be closed under running loops")
				cur |= e.e.bit
			}
		})
		sol.AtExit(func(b *flow.Block, facts uint64) {
			if facts&fAlreadyDown != 0 {
				c.Ok(f.Name, "repeated stop returns early", b.Return.Pos(), "already shut down: no step is repeated")
				return
			}
			all := uint64(fSignal | fOnShutdown | fExitTasks | fWaited | fClosed | fStored)
			c.Check(facts&all == all, f.Name, "complete shutdown sequence", b.Return.Pos(), "every step is performed before returning",
				"a return of the stop path skips a shutdown step (OnShutdown, exit tasks, Wait, closeEventLoops or inShutdown)")
		})
	}
	// inShutdown stored only there
	s := c.P.BuildSSA()
	for _, fa := range s.Accesses() {
		if fa.Field != inShutdown || fa.Kind != core.AccAtomic || fa.Callee == nil || ssaName(fa.Callee) != "Store" {
			continue
		}
		site := core.SSAHostName(fa.Fn)
		c.Check(site == "(*gnet.engine).stop" || site == "(*gnet.Client).Stop", site, "store to engine.inShutdown", fa.Pos, "written only at the end of the stop sequence",
			"engine.inShutdown is stored outside the stop sequence: the control API would report 'in shutdown' while loops are still running (or never)")
	}
}

func runC06_4(c *core.Ctx) {
	v := vocabOf(c)
	if v == nil {
		return
	}
	f := getFn(c, "", "run")
	start := c.P.Func("", "engine.start")
	stop := c.P.Func("", "engine.stop")
	cel := c.P.Func("", "engine.closeEventLoops")
	if f == nil || !c.Need("engine.start", start) || !c.Need("engine.stop", stop) || !c.Need("closeEventLoops", cel) {
		return
	}
	// engine.start only dispatches to one of the two start-up routines: written out in run, either of them is "the start"
	startUps := []*types.Func{start, c.P.Func("", "engine.runEventLoops"), c.P.Func("", "engine.activateReactors")}
	isStart := func(call *ast.CallExpr) bool {
		for _, s := range startUps {
			if s != nil && flow.IsCall(f.Info, call, s) {
				return true
			}
		}
		return false
	}
	const (
		fBoot = 1 << iota
		fStarted
		fStartOK
		fStartFail
		fTornDown
		fStopCalled
	)
	p := &flow.Problem{Must: true}
	p.Node = func(b *flow.Block, i int, n ast.Node, in uint64) uint64 {
		for _, call := range flow.Calls(n) {
			cf := flow.CalleeFunc(f.Info, call)
			switch {
			case cf != nil && flow.SameFunc(cf, v.handler["OnBoot"]):
				in |= fBoot
			case isStart(call):
				in |= fStarted
			case flow.IsCall(f.Info, call, cel):
				in |= fTornDown
			case flow.IsCall(f.Info, call, stop):
				if _, isDefer := n.(*ast.DeferStmt); !isDefer {
					in |= fStopCalled
				}
			}
		}
		return in
	}
	p.Edge = func(e *flow.Edge, in uint64) uint64 {
		if in&fStarted != 0 && e.Cond != nil && e.Tag == nil {
			if x, y, op, ok := flow.Cmp(e.Cond); ok && flow.IsNil(f.Info, y) && isErrorType(f.Info.TypeOf(x)) {
				if (op == token.NEQ) == e.Sense {
					in |= fStartFail
				} else {
					in |= fStartOK
				}
			}
		}
		return in
	}
	sol := f.Graph().Solve(p)
	deferSeen := false
	sol.Walk(func(b *flow.Block, i int, n ast.Node, before uint64) {
		for _, call := range flow.Calls(n) {
			if isStart(call) {
				c.Check(before&fBoot != 0, f.Name, "OnBoot before start", call.Pos(), "the handler's OnBoot verdict is known before anything is started",
					"eng.start can run before OnBoot was consulted: a Shutdown returned from OnBoot would no longer prevent the engine from starting")
			}
		}
		if d, ok := n.(*ast.DeferStmt); ok && flow.IsCall(f.Info, d.Call, stop) {
			deferSeen = true
			c.Check(before&fStartOK != 0, f.Name, "defer eng.stop after successful start", d.Pos(), "stop sequence deferred only once the loops run",
				"`defer eng.stop` is registered before start succeeded: on a failed start run would block forever waiting for a shutdown signal, or stop loops that never ran")
		}
	})
	if !deferSeen {
		// no defer: the stop sequence must then be called on every path that returns after a successful start
		explicit, okAll := 0, true
		sol.Walk(func(b *flow.Block, i int, n ast.Node, before uint64) {
			if _, isDefer := n.(*ast.DeferStmt); isDefer {
				return
			}
			for _, call := range flow.Calls(n) {
				if flow.IsCall(f.Info, call, stop) {
					explicit++
					if before&fStartOK == 0 {
						okAll = false
					}
				}
			}
		})
		sol.AtExit(func(b *flow.Block, facts uint64) {
			if facts&fStartOK != 0 && facts&fStopCalled == 0 {
				okAll = false
			}
		})
		c.Check(explicit > 0 && okAll, f.Name, "defer eng.stop after successful start", f.Decl.Pos(), "eng.stop is called (not deferred) on every return that follows a successful start",
			"run neither defers eng.stop nor calls it on every path after a successful start: Run would return while the loops keep running, and nothing would ever shut them down")
	}
	sol.AtExit(func(b *flow.Block, facts uint64) {
		if facts&fStartFail != 0 {
			c.Check(facts&fTornDown != 0, f.Name, "start failure tears down", b.Return.Pos(), "partially created loops are closed", "the start-failure return does not call closeEventLoops: pollers/listeners created so far leak")
		}
	})
}

func runC06_6(c *core.Ctx) {
	v := vocabOf(c)
	if v == nil {
		return
	}
	n := 0
	for _, f := range v.funcs {
		has := false
		for _, call := range callsIn(f.Decl.Body, true) {
			if cf := flow.CalleeFunc(f.Info, call); cf != nil && flow.SameFunc(cf, v.handler["OnShutdown"]) {
				has = true
				n++
			}
		}
		if !has {
			continue
		}
		okFn := f.Name == "gnet.(*engine).stop" || f.Name == "gnet.(*Client).Stop"
		c.Check(okFn, f.Name, "OnShutdown call site", f.Decl.Pos(), "stop path", "OnShutdown is invoked from a function other than engine.stop / Client.Stop")
		g := f.Graph()
		cnt := g.CountEvents(flow.CountOpts{Events: func(b *flow.Block, nd ast.Node) int {
			k := 0
			for _, call := range flow.Calls(nd) {
				if cf := flow.CalleeFunc(f.Info, call); cf != nil && flow.SameFunc(cf, v.handler["OnShutdown"]) {
					k++
				}
			}
			return k
		}})
		isShutdownFn := c.P.Func("", "engine.isShutdown")
		dp := &flow.Problem{Must: true}
		dp.Edge = func(e *flow.Edge, in uint64) uint64 {
			if e.Cond != nil && e.Tag == nil && e.Sense {
				if call, ok := ast.Unparen(e.Cond).(*ast.CallExpr); ok && isShutdownFn != nil && flow.IsCall(f.Info, call, isShutdownFn) {
					in |= 1
				}
			}
			return in
		}
		down := g.Solve(dp)
		cnt.AtExit(func(b *flow.Block, _ uint64) {
			cs := cnt.Out(b)
			if down.Out(b)&1 != 0 && cs == flow.Cnt0 {
				return // repeated stop
			}
			c.Check(cs == flow.Cnt1, f.Name, "OnShutdown exactly once", b.Return.Pos(), "exactly one OnShutdown per stop", "OnShutdown runs "+flow.CountSet(cs)+" times on a path of the stop sequence")
		})
	}
	c.Check(n == 2, "gnet", "number of OnShutdown call sites", token.NoPos, "two sites (server, client)", "OnShutdown has "+itoa(n)+" call sites (expected the two stop paths)")
	_ = constant.MakeBool
}
