// Command automut generates first-order mutants of gnet's non-test sources (statement deletion,
// condition negation, relational boundary, arithmetic swap, dropped error, &&/||) as a mutant file
// for `gnetlint -survey`. It is a development aid for finding coverage gaps of the rule set; it is
// not one of the registered checks.
package main

import (
	"encoding/json"
	"flag"
	"fmt"
	"go/ast"
	"go/parser"
	"go/token"
	"os"
	"path/filepath"
	"strings"
)

type edit struct {
	File  string `json:"file"`
	Start int    `json:"start"`
	End   int    `json:"end"`
	New   string `json:"new"`
}

type mutant struct {
	ID    string `json:"id"`
	Op    string `json:"op"`
	Func  string `json:"func"`
	Line  int    `json:"line"`
	Text  string `json:"text"`
	Edits []edit `json:"edits"`
}

func main() {
	repo := flag.String("repo", "/repo", "")
	out := flag.String("out", "", "")
	flag.Parse()
	var muts []mutant
	for _, rel := range flag.Args() {
		path := filepath.Join(*repo, rel)
		src, err := os.ReadFile(path)
		if err != nil {
			fmt.Fprintln(os.Stderr, err)
			os.Exit(2)
		}
		fset := token.NewFileSet()
		f, err := parser.ParseFile(fset, path, src, parser.ParseComments)
		if err != nil {
			fmt.Fprintln(os.Stderr, err)
			os.Exit(2)
		}
		off := func(p token.Pos) int { return fset.Position(p).Offset }
		add := func(fn, op string, n ast.Node, start, end token.Pos, repl string) {
			s, e := off(start), off(end)
			id := fmt.Sprintf("%s:%d:%s:%d", rel, fset.Position(n.Pos()).Line, op, len(muts))
			txt := strings.TrimSpace(string(src[off(n.Pos()):off(n.End())]))
			if i := strings.IndexByte(txt, '\n'); i >= 0 {
				txt = txt[:i] + " …"
			}
			if len(txt) > 100 {
				txt = txt[:100] + "…"
			}
			muts = append(muts, mutant{ID: id, Op: op, Func: fn, Line: fset.Position(n.Pos()).Line, Text: txt,
				Edits: []edit{{rel, s, e, repl}}})
		}
		for _, d := range f.Decls {
			fd, ok := d.(*ast.FuncDecl)
			if !ok || fd.Body == nil {
				continue
			}
			name := fd.Name.Name
			if fd.Recv != nil && len(fd.Recv.List) == 1 {
				t := fd.Recv.List[0].Type
				if st, ok := t.(*ast.StarExpr); ok {
					t = st.X
				}
				if ix, ok := t.(*ast.IndexExpr); ok {
					t = ix.X
				}
				if id, ok := t.(*ast.Ident); ok {
					name = id.Name + "." + name
				}
			}
			ast.Inspect(fd.Body, func(n ast.Node) bool {
				switch n := n.(type) {
				case *ast.ExprStmt:
					if _, ok := n.X.(*ast.CallExpr); ok {
						add(name, "delcall", n, n.Pos(), n.End(), "")
					}
				case *ast.AssignStmt:
					if n.Tok != token.DEFINE {
						// keep evaluation of the right-hand side out: plain deletion
						add(name, "delassign", n, n.Pos(), n.End(), "")
					}
				case *ast.IncDecStmt:
					add(name, "delincdec", n, n.Pos(), n.End(), "")
				case *ast.DeferStmt:
					add(name, "deldefer", n, n.Pos(), n.End(), "")
				case *ast.IfStmt:
					add(name, "negif", n, n.Cond.Pos(), n.Cond.End(), "!("+string(src[off(n.Cond.Pos()):off(n.Cond.End())])+")")
				case *ast.ForStmt:
					if n.Cond != nil {
						if be, ok := n.Cond.(*ast.BinaryExpr); ok {
							_ = be
						}
					}
				case *ast.BinaryExpr:
					var repl string
					switch n.Op {
					case token.LSS:
						repl = "<="
					case token.LEQ:
						repl = "<"
					case token.GTR:
						repl = ">="
					case token.GEQ:
						repl = ">"
					case token.EQL:
						repl = "!="
					case token.NEQ:
						repl = "=="
					case token.ADD:
						repl = "-"
					case token.SUB:
						repl = "+"
					case token.LAND:
						repl = "||"
					case token.LOR:
						repl = "&&"
					}
					if repl != "" {
						add(name, "binop"+n.Op.String()+"→"+repl, n, n.OpPos, n.OpPos+token.Pos(len(n.Op.String())), repl)
					}
				case *ast.ReturnStmt:
					for _, r := range n.Results {
						if id, ok := r.(*ast.Ident); ok && (id.Name == "err") {
							add(name, "reterrnil", n, id.Pos(), id.End(), "nil")
						}
					}
				case *ast.BranchStmt:
					if n.Label == nil && (n.Tok == token.BREAK || n.Tok == token.CONTINUE) {
						repl := "continue"
						if n.Tok == token.CONTINUE {
							repl = "break"
						}
						add(name, "branch", n, n.Pos(), n.End(), repl)
					}
				}
				return true
			})
		}
	}
	b, _ := json.MarshalIndent(muts, "", " ")
	if *out == "" {
		os.Stdout.Write(b)
	} else if err := os.WriteFile(*out, b, 0o644); err != nil {
		fmt.Fprintln(os.Stderr, err)
		os.Exit(2)
	}
	fmt.Fprintf(os.Stderr, "automut: %d mutants\n", len(muts))
}
