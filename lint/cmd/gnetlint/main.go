// gnetlint decides structural necessary conditions of the gnet properties by static analysis
// of /repo's current working tree. See /verif/DESIGN.md.
package main

import (
	"encoding/json"
	"flag"
	"fmt"
	"go/ast"
	"go/printer"
	"go/types"
	"os"
	"os/exec"
	"path/filepath"
	"runtime/debug"
	"sort"
	"strconv"
	"strings"
	"sync"
	"time"

	"gnetlint/core"
	"gnetlint/rules"
)

var (
	flagProp        = flag.String("prop", "", "property id (C01..C20), comma separated, or 'all'")
	flagTier        = flag.String("tier", "quick", "quick|thorough")
	flagRepo        = flag.String("repo", "/repo", "repository root")
	flagVerif       = flag.String("verif", "/verif", "verif root (evidence, reports, known findings)")
	flagWorker      = flag.Bool("worker", false, "internal: run one configuration and print JSON")
	flagConfig      = flag.String("config", "", "internal: configuration GOOS/GOARCH/tags")
	flagMutant      = flag.String("mutant", "", "internal: mutant id to overlay")
	flagOut         = flag.String("out", "", "internal: worker output file")
	flagReplay      = flag.String("replay", "", "re-decide the obligation recorded in a report file")
	flagVerbose     = flag.Bool("v", false, "print every obligation")
	flagNoMut       = flag.Bool("nomutants", false, "skip overlay mutants")
	flagList        = flag.Bool("list", false, "list rules")
	flagSurvey      = flag.String("survey", "", "development aid: run every mutant of an automut file against all rules and report survivors")
	flagMutFile     = flag.String("mutfile", "", "internal: automut file the -mutant id refers to")
	flagDumpFuncs   = flag.Bool("dumpfuncs", false, "development aid: print the function keys of the module over the whole configuration matrix (source of core/baseline_funcs.txt)")
	flagDumpHelpers = flag.Bool("dumphelpers", false, "with -dumpfuncs: print the source of the small unexported functions (source of core/baseline_helpers.txt)")
	flagDumpFields  = flag.Bool("dumpfields", false, "with -dumpfuncs: print the struct fields instead (source of core/baseline_fields.txt)")
	flagJobs        = flag.Int("jobs", 12, "parallel workers for -survey")
)

// Mutant is a textual exact-once replacement applied through the loader overlay.
type Mutant struct {
	ID     string   `json:"id"`
	Prop   string   `json:"prop"`
	Expect []string `json:"expect"` // rules of which at least one must newly fire
	File   string   `json:"file"`
	Old    string   `json:"old"`
	New    string   `json:"new"`
	Edits  []Edit   `json:"edits"` // further replacements (same or other files)
	Config string   `json:"config"`
	Canary bool     `json:"canary"`
	Benign bool     `json:"benign"` // behaviour-preserving edit: no rule of the property may newly fire
	Note   string   `json:"note"`
}

// Edit is one exact-once replacement.
type Edit struct {
	File string `json:"file"`
	Old  string `json:"old"`
	New  string `json:"new"`
}

func loadMutants(verif string) ([]Mutant, error) {
	files, _ := filepath.Glob(filepath.Join(verif, "lint", "mutants", "*.json"))
	sort.Strings(files)
	var out []Mutant
	for _, f := range files {
		b, err := os.ReadFile(f)
		if err != nil {
			return nil, err
		}
		var ms []Mutant
		if err := json.Unmarshal(b, &ms); err != nil {
			return nil, fmt.Errorf("%s: %v", f, err)
		}
		out = append(out, ms...)
	}
	return out, nil
}

func main() {
	flag.Parse()
	if *flagList {
		for _, p := range rules.Props() {
			for _, r := range rules.For(p) {
				fmt.Printf("%-8s min=%-3d %s\n", r.ID, r.MinSites, r.Desc)
			}
		}
		return
	}
	if *flagDumpFuncs {
		os.Exit(dumpFuncs())
	}
	if *flagWorker {
		os.Exit(worker())
	}
	if *flagReplay != "" {
		os.Exit(replay())
	}
	if *flagSurvey != "" {
		os.Exit(survey())
	}
	os.Exit(driver())
}

// ---------------------------------------------------------------------------------------------

func worker() (code int) {
	start := time.Now()
	res := core.WorkerResult{Config: *flagConfig, Mutant: *flagMutant, Rules: map[string]int{}}
	defer func() {
		if r := recover(); r != nil {
			res.Error = fmt.Sprintf("panic: %v\n%s", r, debug.Stack())
			code = 3
		}
		res.WallS = time.Since(start).Seconds()
		b, _ := json.Marshal(res)
		if *flagOut != "" {
			_ = os.WriteFile(*flagOut, b, 0o644)
		} else {
			os.Stdout.Write(b)
		}
	}()
	cfg, err := core.ParseConfig(*flagConfig)
	if err != nil {
		res.Error = err.Error()
		return 3
	}
	var overlay map[string][]byte
	if *flagMutant != "" && *flagMutFile != "" {
		var err error
		if overlay, err = autoOverlay(*flagMutFile, *flagMutant); err != nil {
			res.Error = err.Error()
			return 3
		}
	} else if *flagMutant != "" {
		ms, err := loadMutants(*flagVerif)
		if err != nil {
			res.Error = err.Error()
			return 3
		}
		var m *Mutant
		for i := range ms {
			if ms[i].ID == *flagMutant {
				m = &ms[i]
			}
		}
		if m == nil {
			res.Error = "unknown mutant " + *flagMutant
			return 3
		}
		overlay = map[string][]byte{}
		edits := append([]Edit{{m.File, m.Old, m.New}}, m.Edits...)
		for _, e := range edits {
			path := filepath.Join(*flagRepo, e.File)
			src, ok := overlay[path]
			if !ok {
				var err error
				if src, err = os.ReadFile(path); err != nil {
					res.Stale = true
					return 0
				}
			}
			if strings.Count(string(src), e.Old) != 1 {
				res.Stale = true
				return 0
			}
			overlay[path] = []byte(strings.Replace(string(src), e.Old, e.New, 1))
		}
	}
	p, err := core.Load(*flagRepo, cfg, overlay)
	if err != nil {
		res.Error = err.Error()
		if overlay != nil {
			// a mutant that does not compile is not a useful mutant
			res.Stale = true
			return 0
		}
		return 3
	}
	res.Packages = len(p.Pkgs)
	res.Absorbed = p.AbsorbedNames()
	res.InlineErrors = p.InlineErrors
	res.Renames = p.Renames
	res.Restored, res.Folded, res.RestoreError = p.Restored, p.Folded, p.RestoreError
	for _, pk := range p.Pkgs {
		res.Funcs += len(p.FuncsOf(pk))
	}
	for _, prop := range strings.Split(*flagProp, ",") {
		for _, r := range rules.For(prop) {
			if r.Applies != nil && !r.Applies(cfg) {
				continue
			}
			ctx := &core.Ctx{P: p, R: r}
			func() {
				defer func() {
					if e := recover(); e != nil {
						ctx.Undecided("engine", "panic", 0, fmt.Sprintf("rule panicked: %v\n%s", e, debug.Stack()))
					}
				}()
				r.Run(ctx)
			}()
			n := 0
			for _, o := range ctx.Obls {
				if o.Status != core.Undecided {
					n++
				}
			}
			res.Rules[r.ID] = n
			// MinSites records the number of instances confirmed by hand. A rule that finds fewer than half
			// of them no longer sees the code it was written for (UNDECIDED); a smaller drop is what a
			// behaviour-preserving merge of sibling branches produces and is not an alarm.
			if floor := (r.MinSites + 1) / 2; n < floor {
				ctx.Undecided("sites", "minimum instance count", 0,
					fmt.Sprintf("rule %s found %d sites, %d were confirmed by hand (floor %d)", r.ID, n, r.MinSites, floor))
			}
			res.Obls = append(res.Obls, ctx.Obls...)
		}
	}
	if p.SSA != nil {
		res.SSAFuncs = len(p.SSA.ModFuncs)
	}
	return 0
}

// ---------------------------------------------------------------------------------------------

type job struct {
	cfg    core.Config
	props  []string
	mutant string
	res    core.WorkerResult
}

func runJobs(jobs []*job) {
	self, _ := os.Executable()
	sem := make(chan struct{}, 10)
	var wg sync.WaitGroup
	for _, j := range jobs {
		wg.Add(1)
		go func(j *job) {
			defer wg.Done()
			sem <- struct{}{}
			defer func() { <-sem }()
			tmp, err := os.CreateTemp("", "gnetlint-*.json")
			if err != nil {
				j.res.Error = err.Error()
				return
			}
			tmp.Close()
			defer os.Remove(tmp.Name())
			args := []string{"-worker", "-repo", *flagRepo, "-verif", *flagVerif, "-config", j.cfg.String(),
				"-prop", strings.Join(j.props, ","), "-out", tmp.Name()}
			if j.mutant != "" {
				args = append(args, "-mutant", j.mutant)
			}
			cmd := exec.Command(self, args...)
			cmd.Stderr = os.Stderr
			_ = cmd.Run()
			b, err := os.ReadFile(tmp.Name())
			if err != nil || len(b) == 0 {
				j.res.Error = fmt.Sprintf("worker %s produced no result (%v)", j.cfg, err)
				return
			}
			if err := json.Unmarshal(b, &j.res); err != nil {
				j.res.Error = err.Error()
			}
		}(j)
	}
	wg.Wait()
}

func driver() int {
	start := time.Now()
	if *flagProp == "" {
		fmt.Fprintln(os.Stderr, "usage: gnetlint -prop Cxx [-tier quick|thorough]")
		return 3
	}
	props := strings.Split(*flagProp, ",")
	if *flagProp == "all" {
		props = rules.Props()
	}
	tier := *flagTier
	if t := os.Getenv("VERIF_TIER"); t != "" && (t == "quick" || t == "thorough") && !isFlagSet("tier") {
		tier = t
	}
	seed := 0
	if s := os.Getenv("VERIF_SEED"); s != "" {
		seed, _ = strconv.Atoi(s)
	}
	known, err := core.LoadKnown(filepath.Join(*flagVerif, "known_findings.json"))
	if err != nil {
		fmt.Fprintln(os.Stderr, "known findings:", err)
		return 3
	}
	mutants, err := loadMutants(*flagVerif)
	if err != nil {
		fmt.Fprintln(os.Stderr, "mutants:", err)
		return 3
	}

	// configs per property
	cfgProps := map[string][]string{}
	var cfgOrder []string
	addCfg := func(c core.Config, prop string) {
		k := c.String()
		if _, ok := cfgProps[k]; !ok {
			cfgOrder = append(cfgOrder, k)
		}
		for _, p := range cfgProps[k] {
			if p == prop {
				return
			}
		}
		cfgProps[k] = append(cfgProps[k], prop)
	}
	propCfgs := map[string][]string{}
	for _, prop := range props {
		if len(rules.For(prop)) == 0 {
			fmt.Fprintf(os.Stderr, "no rules for property %s\n", prop)
			return 3
		}
		var cs []core.Config
		if tier == "thorough" {
			cs = rules.Matrix
		} else {
			cs = append([]core.Config{{GOOS: "linux", GOARCH: "amd64"}}, rules.Info(prop).QuickConfigs...)
		}
		for _, c := range cs {
			addCfg(c, prop)
			propCfgs[prop] = append(propCfgs[prop], c.String())
		}
	}
	var jobs []*job
	for _, k := range cfgOrder {
		c, _ := core.ParseConfig(k)
		jobs = append(jobs, &job{cfg: c, props: cfgProps[k]})
	}
	// mutants
	var mjobs []*job
	mutOf := map[*job]*Mutant{}
	if !*flagNoMut {
		for i := range mutants {
			m := &mutants[i]
			want := false
			for _, p := range props {
				if p == m.Prop {
					want = true
				}
			}
			if !want || (tier == "quick" && !m.Canary) {
				continue
			}
			cs := m.Config
			if cs == "" {
				cs = "linux/amd64/-"
			}
			c, err := core.ParseConfig(cs)
			if err != nil {
				fmt.Fprintln(os.Stderr, "mutant", m.ID, err)
				return 3
			}
			j := &job{cfg: c, props: []string{m.Prop}, mutant: m.ID}
			mutOf[j] = m
			mjobs = append(mjobs, j)
			// make sure a base result for that config exists
			if _, ok := cfgProps[cs]; !ok {
				addCfg(c, m.Prop)
				jobs = append(jobs, &job{cfg: c, props: []string{m.Prop}})
			} else {
				has := false
				for _, p := range cfgProps[cs] {
					if p == m.Prop {
						has = true
					}
				}
				if !has {
					cfgProps[cs] = append(cfgProps[cs], m.Prop)
					for _, bj := range jobs {
						if bj.cfg.String() == cs {
							bj.props = cfgProps[cs]
						}
					}
				}
			}
		}
	}
	runJobs(append(append([]*job{}, jobs...), mjobs...))

	exit := 0
	for _, prop := range props {
		code := finishProp(prop, tier, seed, jobs, mjobs, mutOf, known, propCfgs[prop], start)
		if code > exit {
			if code == 1 || exit != 1 {
				exit = code
			}
		}
		if code == 1 {
			exit = 1
		}
	}
	return exit
}

func isFlagSet(name string) bool {
	set := false
	flag.Visit(func(f *flag.Flag) {
		if f.Name == name {
			set = true
		}
	})
	return set
}

func rulePrefix(rule string) string { return strings.SplitN(rule, ".", 2)[0] }

func finishProp(prop, tier string, seed int, jobs, mjobs []*job, mutOf map[*job]*Mutant,
	known []core.KnownFinding, wantCfgs []string, start time.Time) int {
	var results []core.WorkerResult
	var loadErrs []string
	pkgs, funcs, ssaFuncs := 0, 0, 0
	absorbed := map[string]bool{}
	renames := map[string]bool{}
	restored := map[string]bool{}
	ruleSites := map[string]int{}
	baseViol := map[string]map[string]bool{} // config -> violated keys
	var cfgNames []string
	for _, j := range jobs {
		has := false
		for _, p := range j.props {
			if p == prop {
				has = true
			}
		}
		if !has {
			continue
		}
		inWant := false
		for _, w := range wantCfgs {
			if w == j.cfg.String() {
				inWant = true
			}
		}
		if j.res.Error != "" {
			loadErrs = append(loadErrs, j.cfg.String()+": "+j.res.Error)
			continue
		}
		r := j.res
		var mine []core.Obligation
		bv := map[string]bool{}
		for _, o := range r.Obls {
			if rulePrefix(o.Rule) == prop {
				mine = append(mine, o)
				if o.Status == core.Violated {
					bv[o.Key()] = true
				}
			}
		}
		baseViol[j.cfg.String()] = bv
		if !inWant {
			continue // base run only needed for a mutant
		}
		r.Obls = mine
		results = append(results, r)
		cfgNames = append(cfgNames, j.cfg.String())
		if r.Packages > pkgs {
			pkgs = r.Packages
		}
		if r.Funcs > funcs {
			funcs = r.Funcs
		}
		if r.SSAFuncs > ssaFuncs {
			ssaFuncs = r.SSAFuncs
		}
		for _, a := range r.Absorbed {
			absorbed[a] = true
		}
		for _, a := range r.Renames {
			renames[a] = true
		}
		for _, a := range r.Restored {
			restored[a] = true
		}
		for k, v := range r.Rules {
			if rulePrefix(k) == prop && v > ruleSites[k] {
				ruleSites[k] = v
			}
		}
	}
	obls := core.MergeObligations(results)

	nOK, nViol, nKnown, nUndec := 0, 0, 0, 0
	exit := 0
	reportDir := filepath.Join(*flagVerif, "reports", prop)
	_ = os.RemoveAll(reportDir)
	var lines []string
	for _, e := range loadErrs {
		lines = append(lines, fmt.Sprintf("UNDECIDED property=%s rule=load reason=%s", prop, oneLine(e)))
		nUndec++
	}
	vi := 0
	for _, o := range obls {
		switch o.Status {
		case core.OK:
			nOK++
			if *flagVerbose {
				lines = append(lines, fmt.Sprintf("ok        %-7s %s [%s] %s %s", o.Rule, o.Site, o.Construct, o.Pos, o.Msg))
			}
		case core.Undecided:
			nUndec++
			lines = append(lines, fmt.Sprintf("UNDECIDED property=%s rule=%s site=%s [%s] reason=%s configs=%s",
				prop, o.Rule, o.Site, o.Construct, oneLine(o.Msg), strings.Join(o.Configs, ",")))
		case core.Violated:
			if k := core.MatchKnown(known, o); k != nil {
				nKnown++
				lines = append(lines, fmt.Sprintf("KNOWN-FINDING: property=%s rule=%s site=%s [%s] at %s: %s (%s)",
					prop, o.Rule, o.Site, o.Construct, o.Pos, oneLine(o.Msg), k.What))
				continue
			}
			nViol++
			vi++
			_ = os.MkdirAll(reportDir, 0o755)
			path := filepath.Join(reportDir, fmt.Sprintf("%d.json", vi))
			rep := map[string]any{"property": prop, "rule": o.Rule, "site": o.Site, "construct": o.Construct,
				"pos": o.Pos, "msg": o.Msg, "witness": o.Witness, "configs": o.Configs, "tier": tier,
				"rule_text": ruleDesc(o.Rule)}
			b, _ := json.MarshalIndent(rep, "", " ")
			_ = os.WriteFile(path, b, 0o644)
			lines = append(lines, fmt.Sprintf("violated  %s %s [%s] at %s: %s", o.Rule, o.Site, o.Construct, o.Pos, oneLine(o.Msg)))
			if len(o.Witness) > 0 {
				lines = append(lines, "          path: "+strings.Join(o.Witness, " -> "))
			}
			lines = append(lines, fmt.Sprintf("VIOLATION property=%s replay=%s", prop, path))
			exit = 1
		}
	}

	// mutants
	type mres struct {
		ID, Status string
		Fired      []string
	}
	var mr []mres
	mKilled, mStale, mSurv, mFalse, mQuiet := 0, 0, 0, 0, 0
	canaryFailed := false
	for _, j := range mjobs {
		m := mutOf[j]
		if m.Prop != prop {
			continue
		}
		st := "survived"
		var fired []string
		switch {
		case j.res.Stale:
			st = "stale"
			mStale++
		case j.res.Error != "":
			st = "error: " + oneLine(j.res.Error)
			mSurv++
		default:
			bv := baseViol[j.cfg.String()]
			for _, o := range j.res.Obls {
				if o.Status != core.Violated || bv[o.Key()] {
					continue
				}
				match := len(m.Expect) == 0
				for _, e := range m.Expect {
					if e == o.Rule {
						match = true
					}
				}
				if m.Benign {
					match = rulePrefix(o.Rule) == prop
				}
				if match {
					fired = appendUniq(fired, o.Rule+"@"+o.Site)
				}
			}
			switch {
			case m.Benign && len(fired) > 0:
				st = "FALSE-ALARM (benign edit)"
				mFalse++
			case m.Benign:
				st = "quiet (benign edit)"
				mQuiet++
			case len(fired) > 0:
				st = "killed"
				mKilled++
			default:
				mSurv++
			}
		}
		if st != "killed" && st != "stale" && m.Canary && !m.Benign {
			canaryFailed = true
			lines = append(lines, fmt.Sprintf("UNDECIDED property=%s rule=%s reason=canary mutant %s was not detected (%s): the rule lost its sensitivity",
				prop, strings.Join(m.Expect, ","), m.ID, st))
		}
		mr = append(mr, mres{m.ID, st, fired})
	}
	if canaryFailed {
		nUndec++
	}
	if nUndec > 0 && exit == 0 {
		exit = 2
	}

	// evidence
	pi := rules.Info(prop)
	var samples []any
	perRule := map[string]bool{}
	for _, o := range obls {
		if !perRule[o.Rule+string(o.Status)] || o.Status != core.OK {
			perRule[o.Rule+string(o.Status)] = true
			samples = append(samples, map[string]any{"rule": o.Rule, "site": o.Site, "construct": o.Construct,
				"pos": o.Pos, "status": o.Status, "msg": o.Msg, "configs": o.Configs})
		}
		if len(samples) >= 60 {
			break
		}
	}
	distinct := map[string]bool{}
	for _, o := range obls {
		distinct[o.Key()] = true
	}
	var ruleList []any
	for _, r := range rules.For(prop) {
		ruleList = append(ruleList, map[string]any{"id": r.ID, "text": r.Desc, "min_sites": r.MinSites, "sites": ruleSites[r.ID]})
	}
	cov := map[string]any{
		"explanation": pi.Explanation,
		"rule": "obligation = (rule, function, construct) instance found by resolving the rule's anchors through go/types in " +
			"each analysed build configuration; distinct = distinct (rule,function,construct) keys; every one is non-trivial " +
			"(it is a real site in /repo that the rule constrains)",
		"obligations":         len(obls),
		"discharged":          nOK,
		"known_findings":      nKnown,
		"violations":          nViol,
		"undecided":           nUndec,
		"evaluations":         len(obls),
		"distinct_nontrivial": len(distinct),
		"samples":             samples,
		"configs":             cfgNames,
		"packages":            pkgs,
		"functions":           funcs,
		"ssa_functions":       ssaFuncs,
		"absorbed_helpers":    sortedKeys(absorbed),
		"renames_recognised":  sortedKeys(renames),
		"helpers_restored":    sortedKeys(restored),
		"rules":               ruleList,
		"mutants":             map[string]any{"run": len(mr), "killed": mKilled, "stale": mStale, "survived": mSurv, "detail": mr},
		"checker_cmd":         fmt.Sprintf("/verif/bin/gnetlint -prop %s -tier %s", prop, tier),
		"exhaustive":          false,
		"trusted_base":        []string{"go/types, go/ssa, go/cfg, VTA of golang.org/x/tools v0.29.0", "the rule tables in /verif/lint/rules"},
	}
	ev := map[string]any{
		"property_id": prop, "tier": tier, "seed": seed, "level": "other", "coverage": cov,
		"assumptions": pi.Assumptions, "wall_s": time.Since(start).Seconds(), "violations": nViol,
	}
	_ = os.MkdirAll(filepath.Join(*flagVerif, "evidence"), 0o755)
	b, _ := json.MarshalIndent(ev, "", " ")
	if err := os.WriteFile(filepath.Join(*flagVerif, "evidence", prop+".json"), b, 0o644); err != nil {
		fmt.Fprintln(os.Stderr, "evidence:", err)
		if exit == 0 {
			exit = 3
		}
	}

	fmt.Printf("== %s tier=%s configs=%d obligations=%d ok=%d known=%d violated=%d undecided=%d mutants=%d/%d killed (%d stale) benign=%d quiet/%d false-alarm\n",
		prop, tier, len(cfgNames), len(obls), nOK, nKnown, nViol, nUndec, mKilled, len(mr)-mStale-mQuiet-mFalse, mStale, mQuiet, mFalse)
	rs := make([]string, 0, len(ruleSites))
	for k := range ruleSites {
		rs = append(rs, k)
	}
	sort.Slice(rs, func(i, j int) bool { return ruleNum(rs[i]) < ruleNum(rs[j]) })
	for _, k := range rs {
		fmt.Printf("   %-8s sites=%-3d %s\n", k, ruleSites[k], ruleDesc(k))
	}
	for _, m := range mr {
		if (m.Status != "killed" && m.Status != "quiet (benign edit)") || *flagVerbose {
			fmt.Printf("   mutant %-28s %s %v\n", m.ID, m.Status, m.Fired)
		}
	}
	for _, l := range lines {
		fmt.Println(l)
	}
	return exit
}

func ruleNum(r string) int {
	p := strings.SplitN(r, ".", 2)
	if len(p) < 2 {
		return 0
	}
	n := 0
	fmt.Sscanf(p[1], "%d", &n)
	return n
}

func ruleDesc(id string) string {
	for _, r := range rules.For(rulePrefix(id)) {
		if r.ID == id {
			return r.Desc
		}
	}
	return ""
}

func oneLine(s string) string {
	s = strings.ReplaceAll(s, "\n", " ")
	if len(s) > 400 {
		s = s[:400] + "…"
	}
	return s
}

func appendUniq(a []string, x string) []string {
	for _, y := range a {
		if x == y {
			return a
		}
	}
	return append(a, x)
}

// ---------------------------------------------------------------------------------------------

func replay() int {
	b, err := os.ReadFile(*flagReplay)
	if err != nil {
		fmt.Fprintln(os.Stderr, err)
		return 3
	}
	var rep struct {
		Property, Rule, Site, Construct string
		Configs                         []string
	}
	if err := json.Unmarshal(b, &rep); err != nil {
		fmt.Fprintln(os.Stderr, err)
		return 3
	}
	if len(rep.Configs) == 0 {
		rep.Configs = []string{"linux/amd64/-"}
	}
	c, _ := core.ParseConfig(rep.Configs[0])
	j := &job{cfg: c, props: []string{rep.Property}}
	runJobs([]*job{j})
	if j.res.Error != "" {
		fmt.Println("UNDECIDED", j.res.Error)
		return 2
	}
	found := false
	code := 0
	for _, o := range j.res.Obls {
		if o.Rule == rep.Rule && o.Site == rep.Site && o.Construct == rep.Construct {
			found = true
			fmt.Printf("%s %s %s [%s] at %s: %s\n", o.Status, o.Rule, o.Site, o.Construct, o.Pos, o.Msg)
			if len(o.Witness) > 0 {
				fmt.Println("  path:", strings.Join(o.Witness, " -> "))
			}
			fmt.Println("  rule:", ruleDesc(o.Rule))
			if o.Status == core.Violated {
				fmt.Printf("VIOLATION property=%s replay=%s\n", rep.Property, *flagReplay)
				code = 1
			}
		}
	}
	if !found {
		fmt.Println("obligation no longer exists on the current tree (construct removed or renamed)")
	}
	return code
}

// dumpFuncs prints the baseline tables: with -dumpfuncs every module function as
// pkgpath.Recv.Name<TAB>signature<TAB>configs, with -dumpfuncs -dumpfields every field of a named struct.
func dumpFuncs() int {
	sig := map[string]string{}
	extra := map[string]string{}
	cfgs := map[string][]string{}
	for _, cfg := range rules.Matrix {
		p, err := core.Load(*flagRepo, cfg, nil)
		if err != nil {
			fmt.Fprintln(os.Stderr, err)
			return 3
		}
		if *flagDumpHelpers {
			for _, pk := range p.Pkgs {
				for id, obj := range pk.TypesInfo.Defs {
					fn, ok := obj.(*types.Func)
					if !ok || fn.Exported() || fn.Name() == "init" || fn.Name() == "main" {
						continue
					}
					d := p.RawDecl(fn)
					if d == nil || d.Body == nil || d.Name != id || d.Type.TypeParams != nil {
						continue
					}
					lines := p.Fset.Position(d.End()).Line - p.Fset.Position(d.Pos()).Line
					if lines > 30 {
						continue
					}
					k := core.FuncKey(fn)
					if _, done := sig[k]; done {
						continue
					}
					var b strings.Builder
					b.WriteString("#pkg " + pk.PkgPath + " " + pk.Types.Name() + "\n")
					imps := map[string]bool{}
					ast.Inspect(d, func(n ast.Node) bool {
						if x, ok := n.(*ast.Ident); ok {
							if pn, ok := pk.TypesInfo.Uses[x].(*types.PkgName); ok {
								imps[pn.Name()+" \""+pn.Imported().Path()+"\""] = true
							}
						}
						return true
					})
					for _, im := range sortedKeys(imps) {
						b.WriteString("#import " + im + "\n")
					}
					doc := d.Doc
					d.Doc = nil
					if err := printer.Fprint(&b, p.Fset, d); err != nil {
						d.Doc = doc
						continue
					}
					d.Doc = doc
					sig[k] = b.String()
				}
			}
			continue
		}
		for _, pk := range p.Pkgs {
			if *flagDumpFields {
				sc := pk.Types.Scope()
				for _, name := range sc.Names() {
					tn, ok := sc.Lookup(name).(*types.TypeName)
					if !ok {
						continue
					}
					st, ok := tn.Type().Underlying().(*types.Struct)
					if !ok {
						continue
					}
					for i := 0; i < st.NumFields(); i++ {
						f := st.Field(i)
						k := core.FieldKey(pk.PkgPath, name, f.Name())
						sig[k] = types.TypeString(f.Type(), func(p *types.Package) string { return p.Path() })
						extra[k] = strconv.Itoa(i)
						cfgs[k] = append(cfgs[k], cfg.String())
					}
				}
				continue
			}
			for _, obj := range pk.TypesInfo.Defs {
				if fn, ok := obj.(*types.Func); ok && p.RawDecl(fn) != nil {
					k := core.FuncKey(fn)
					sig[k] = core.SigString(fn)
					if _, seen := extra[k]; !seen {
						extra[k] = core.Fingerprint(pk.TypesInfo, p.RawDecl(fn))
					}
					cfgs[k] = append(cfgs[k], cfg.String())
				}
			}
		}
	}
	var keys []string
	for k := range sig {
		keys = append(keys, k)
	}
	sort.Strings(keys)
	for _, k := range keys {
		cs := map[string]bool{}
		for _, c := range cfgs[k] {
			cs[c] = true
		}
		if *flagDumpHelpers {
			fmt.Printf("=== %s\n%s\n", k, sig[k])
			continue
		}
		fmt.Printf("%s\t%s\t%s\t%s\n", k, sig[k], strings.Join(sortedKeys(cs), ";"), extra[k])
	}
	return 0
}

func sortedKeys(m map[string]bool) []string {
	out := []string{}
	for k := range m {
		out = append(out, k)
	}
	sort.Strings(out)
	return out
}
