package main

import (
	"encoding/json"
	"fmt"
	"os"
	"os/exec"
	"path/filepath"
	"sort"
	"strings"
	"sync"

	"gnetlint/core"
)

// Survey mode is a development aid, not a registered check: it runs the whole rule set on every
// mutant of a file written by cmd/automut and lists the ones no rule notices, so that the gaps of
// the rule set can be read off and triaged by hand.

type autoEdit struct {
	File  string `json:"file"`
	Start int    `json:"start"`
	End   int    `json:"end"`
	New   string `json:"new"`
}

type autoMutant struct {
	ID    string     `json:"id"`
	Op    string     `json:"op"`
	Func  string     `json:"func"`
	Line  int        `json:"line"`
	Text  string     `json:"text"`
	Edits []autoEdit `json:"edits"`
}

func loadAuto(file string) ([]autoMutant, error) {
	b, err := os.ReadFile(file)
	if err != nil {
		return nil, err
	}
	var ms []autoMutant
	return ms, json.Unmarshal(b, &ms)
}

func autoOverlay(file, id string) (map[string][]byte, error) {
	ms, err := loadAuto(file)
	if err != nil {
		return nil, err
	}
	for _, m := range ms {
		if m.ID != id {
			continue
		}
		ov := map[string][]byte{}
		for _, e := range m.Edits {
			path := filepath.Join(*flagRepo, e.File)
			src, err := os.ReadFile(path)
			if err != nil {
				return nil, err
			}
			out := append([]byte{}, src[:e.Start]...)
			out = append(out, e.New...)
			out = append(out, src[e.End:]...)
			ov[path] = out
		}
		return ov, nil
	}
	return nil, fmt.Errorf("unknown mutant %s", id)
}

func surveyConfig(file string) string {
	switch {
	case strings.Contains(file, "ultimate"):
		return "linux/amd64/poll_opt"
	case strings.Contains(file, "conn_matrix"):
		return "linux/amd64/gc_opt"
	}
	return "linux/amd64/-"
}

type surveyRow struct {
	autoMutant
	Config string   `json:"config"`
	Status string   `json:"status"` // killed | survived | nocompile | error
	Rules  []string `json:"rules,omitempty"`
	Error  string   `json:"error,omitempty"`
}

func survey() int {
	ms, err := loadAuto(*flagSurvey)
	if err != nil {
		fmt.Fprintln(os.Stderr, err)
		return 3
	}
	self, _ := os.Executable()
	run := func(cfg, mutant string) core.WorkerResult {
		var res core.WorkerResult
		tmp, err := os.CreateTemp("", "gnetlint-survey-*.json")
		if err != nil {
			res.Error = err.Error()
			return res
		}
		tmp.Close()
		defer os.Remove(tmp.Name())
		args := []string{"-worker", "-repo", *flagRepo, "-verif", *flagVerif, "-config", cfg, "-prop", *flagProp, "-out", tmp.Name()}
		if mutant != "" {
			args = append(args, "-mutfile", *flagSurvey, "-mutant", mutant)
		}
		cmd := exec.Command(self, args...)
		cmd.Stderr = os.Stderr
		_ = cmd.Run()
		b, err := os.ReadFile(tmp.Name())
		if err != nil || len(b) == 0 {
			res.Error = "no result"
			return res
		}
		if err := json.Unmarshal(b, &res); err != nil {
			res.Error = err.Error()
		}
		return res
	}
	if *flagProp == "" || *flagProp == "all" {
		*flagProp = "C01,C02,C03,C04,C05,C06,C07,C08,C09,C10,C11,C12,C13,C14,C15,C16,C17,C18,C19,C20"
	}
	base := map[string]map[string]bool{}
	for _, cfg := range []string{"linux/amd64/-", "linux/amd64/poll_opt", "linux/amd64/gc_opt"} {
		r := run(cfg, "")
		if r.Error != "" {
			fmt.Fprintln(os.Stderr, "base", cfg, r.Error)
			return 3
		}
		bad := map[string]bool{}
		for _, o := range r.Obls {
			if o.Status == core.Violated || o.Status == core.Undecided {
				bad[o.Key()] = true
			}
		}
		base[cfg] = bad
	}
	rows := make([]surveyRow, len(ms))
	sem := make(chan struct{}, *flagJobs)
	var wg sync.WaitGroup
	var mu sync.Mutex
	done := 0
	for i := range ms {
		wg.Add(1)
		go func(i int) {
			defer wg.Done()
			sem <- struct{}{}
			defer func() { <-sem }()
			m := ms[i]
			cfg := surveyConfig(m.Edits[0].File)
			r := run(cfg, m.ID)
			row := surveyRow{autoMutant: m, Config: cfg}
			switch {
			case r.Stale:
				row.Status = "nocompile"
				row.Error = oneLine(r.Error)
			case r.Error != "":
				row.Status = "error"
				row.Error = oneLine(r.Error)
			default:
				seen := map[string]bool{}
				for _, o := range r.Obls {
					if (o.Status == core.Violated || o.Status == core.Undecided) && !base[cfg][o.Key()] && !seen[o.Rule] {
						seen[o.Rule] = true
						row.Rules = append(row.Rules, o.Rule)
					}
				}
				sort.Strings(row.Rules)
				if len(row.Rules) > 0 {
					row.Status = "killed"
				} else {
					row.Status = "survived"
				}
			}
			rows[i] = row
			mu.Lock()
			done++
			if done%50 == 0 {
				fmt.Fprintf(os.Stderr, "survey: %d/%d\n", done, len(ms))
			}
			mu.Unlock()
		}(i)
	}
	wg.Wait()
	cnt := map[string]int{}
	for _, r := range rows {
		cnt[r.Status]++
	}
	b, _ := json.MarshalIndent(rows, "", " ")
	out := *flagOut
	if out == "" {
		out = *flagSurvey + ".result.json"
	}
	_ = os.WriteFile(out, b, 0o644)
	fmt.Printf("survey: %d mutants: %v -> %s\n", len(rows), cnt, out)
	return 0
}
